"""Search loop: sharding, seeding, collect-then-shrink, replay, evidence.

A property module exposes
    PID, RULE, TECHNIQUE (optional)
    parts(tier) -> list[Part]
    run_case(case, ctx)           pure function of the JSON-able `case`
    FLOORS = {label: min_share}   optional non-vacuity floors (share of evaluations
                                  of the part named before the '/')
"""
from __future__ import annotations

from . import env  # noqa: F401  (must be first)

import hashlib
import json
import multiprocessing as mp
import os
import sys
import time
import traceback
from collections import Counter
from dataclasses import dataclass, field
from typing import Any, Callable, Optional

from hypothesis import HealthCheck, Phase, Verbosity, given, seed, settings
from hypothesis import find as hyp_find
from hypothesis.errors import NoSuchExample

VERIF = env.VERIF_DIR
# audit runs against scratch copies write their evidence / found-replays elsewhere
OUT = os.environ.get("VERIF_OUT_DIR") or VERIF


def canon(case) -> str:
    return json.dumps(case, sort_keys=True, ensure_ascii=False,
                      separators=(",", ":"), default=str)


def digest(case) -> bytes:
    return hashlib.sha1(canon(case).encode("utf-8", "surrogatepass")).digest()[:10]


@dataclass
class Part:
    name: str
    kind: str                    # 'hyp' | 'enum' | 'custom'
    strategy: Any = None         # hyp: SearchStrategy producing cases
    n: int = 0                   # hyp: number of examples (total over shards)
    enum: Optional[Callable] = None   # enum: f(shard, nshards) -> iterable of cases
    custom: Optional[Callable] = None  # custom: f(ctx, shard, nshards, n)
    shards: int = 0              # 0 => default
    exhaustive: bool = False
    chunk: int = 4000            # hyp examples per fresh child process


class Ctx:
    """Per-process collector handed to run_case."""

    def __init__(self, pid: str, known_sigs=()):
        self.pid = pid
        self.evaluations = 0
        self.labels: Counter = Counter()
        self.digests: set = set()
        self.samples: list = []
        self.viols: dict = {}
        self.excluded: Counter = Counter()
        self.known = set(known_sigs)
        self.case = None
        self.part = ""
        self.harness_errors: list = []
        self._nt = False
        self._ntkey = None

    # -- API used by run_case -------------------------------------------
    def label(self, name: str, n: int = 1) -> None:
        self.labels[f"{self.part}/{name}"] += n

    def nontrivial(self, flag: bool = True, key=None) -> None:
        if flag:
            self._nt = True
            if key is not None:
                self._ntkey = key

    def tick(self, n: int = 1) -> None:
        """Count additional oracle evaluations inside one case."""
        self.evaluations += n

    def viol(self, sig: str, msg: str, case=None) -> None:
        sig = f"{self.pid}/{sig}"
        if sig in self.known:
            self.excluded[sig] += 1
            return
        c = self.case if case is None else case
        size = len(canon(c))
        cur = self.viols.get(sig)
        if cur is None:
            self.viols[sig] = {"case": c, "msg": msg, "count": 1, "size": size,
                               "part": self.part}
        else:
            cur["count"] += 1
            if size < cur["size"]:
                cur.update(case=c, msg=msg, size=size, part=self.part)

    # -- driver side ------------------------------------------------------
    def run(self, prop, case) -> None:
        self.case = case
        self._nt = False
        self._ntkey = None
        self.evaluations += 1
        try:
            prop.run_case(case, self)
        except Exception as exc:  # noqa: BLE001
            where = classify_exception(exc)
            if where is None:
                self.harness_errors.append(
                    "".join(traceback.format_exception(exc))[-3000:]
                    + "\ncase=" + canon(case)[:2000])
                if len(self.harness_errors) > 3:
                    raise
            else:
                self.viol(f"crash/{type(exc).__name__}/{where}",
                          f"unexpected {type(exc).__name__}: {exc} (in {where})")
        if self._nt:
            self.digests.add(digest(case if self._ntkey is None else self._ntkey))
            if len(self.samples) < 4:
                self.samples.append(case)

    def dump(self) -> dict:
        return {"evaluations": self.evaluations, "labels": dict(self.labels),
                "digests": self.digests, "samples": self.samples,
                "viols": self.viols, "excluded": dict(self.excluded),
                "harness_errors": self.harness_errors}


def classify_exception(exc) -> Optional[str]:
    """Return 'module.function' if the innermost frame is in the code under
    test (or its number substrate), None if it is in the harness."""
    tb = exc.__traceback__
    last = None
    while tb is not None:
        last = tb
        tb = tb.tb_next
    if last is None:
        return None
    fn = last.tb_frame.f_code.co_filename
    name = last.tb_frame.f_code.co_name
    src = os.path.join(env.REPO, "src", "quantity")
    if fn.startswith(src):
        return os.path.relpath(fn, src).replace(".py", "") + "." + name
    if "decimalfp" in fn or fn.endswith("fractions.py") or fn.endswith("numbers.py"):
        # raised inside the number types; attribute it to the nearest
        # quantity frame if there is one
        tb = exc.__traceback__
        lib = None
        while tb is not None:
            f = tb.tb_frame.f_code.co_filename
            if f.startswith(src):
                lib = os.path.relpath(f, src).replace(".py", "") + "." + \
                    tb.tb_frame.f_code.co_name
            tb = tb.tb_next
        return lib
    return None


def _seed_for(pid: str, part: str, shard: int) -> int:
    h = hashlib.sha256(f"{env.SEED}:{pid}:{part}:{shard}".encode()).digest()
    return int.from_bytes(h[:8], "big")


_HYP_SETTINGS = dict(database=None, deadline=None,
                     suppress_health_check=list(HealthCheck),
                     report_multiple_bugs=False, verbosity=Verbosity.quiet)


def _run_task(args):
    modname, tier, part_idx, shard, nshards, n, known = args
    import importlib
    prop = importlib.import_module(modname)
    part = prop.parts(tier)[part_idx]
    ctx = Ctx(prop.PID, known)
    ctx.part = part.name
    t0 = time.time()
    if os.environ.get("VERIF_FAULT_TIMEOUT"):
        import faulthandler
        faulthandler.dump_traceback_later(int(os.environ["VERIF_FAULT_TIMEOUT"]), exit=True)
    try:
        if hasattr(prop, "setup_process"):
            prop.setup_process()
        if part.kind == "hyp":
            sd = _seed_for(prop.PID, part.name, shard)

            @seed(sd)
            @settings(max_examples=n, phases=[Phase.generate], **_HYP_SETTINGS)
            @given(part.strategy)
            def t(case):
                ctx.run(prop, case)

            t()
        elif part.kind == "enum":
            for case in part.enum(shard, nshards):
                ctx.run(prop, case)
        elif part.kind == "custom":
            part.custom(ctx, shard, nshards, n, _seed_for(prop.PID, part.name, shard))
        else:
            raise ValueError(part.kind)
        if hasattr(prop, "teardown_process"):
            prop.teardown_process(ctx)
    except BaseException as exc:  # noqa: BLE001
        ctx.harness_errors.append("".join(traceback.format_exception(exc))[-4000:])
    d = ctx.dump()
    d["part"] = part.name
    d["wall"] = time.time() - t0
    return d


def _shrink_task(args):
    modname, tier, part_idx, sig, sd = args
    import importlib
    from random import Random
    prop = importlib.import_module(modname)
    part = prop.parts(tier)[part_idx]
    if hasattr(prop, "setup_process"):
        prop.setup_process()
    budget = int(os.environ.get("VERIF_SHRINK_EXAMPLES", "3000"))

    def cond(case):
        c = Ctx(prop.PID)
        c.part = part.name
        c.run(prop, case)
        return sig in c.viols

    try:
        case = hyp_find(part.strategy, cond, random=Random(sd),
                        settings=settings(max_examples=budget, **_HYP_SETTINGS))
    except NoSuchExample:
        return None
    except Exception:  # noqa: BLE001
        return None
    c = Ctx(prop.PID)
    c.part = part.name
    c.run(prop, case)
    if sig in c.viols:
        return {"case": case, "msg": c.viols[sig]["msg"]}
    return None


# ---------------------------------------------------------------------------

def load_known(pid: str) -> list:
    path = os.path.join(VERIF, "known_findings.json")
    try:
        with open(path, encoding="utf-8") as fh:
            data = json.load(fh)
    except FileNotFoundError:
        return []
    return [f for f in data.get("findings", [])
            if f.get("property") == pid and f.get("status") == "open"]


def replay_case(prop, case, part_name="replay") -> dict:
    ctx = Ctx(prop.PID)
    ctx.part = part_name
    if hasattr(prop, "setup_process"):
        prop.setup_process()
    ctx.run(prop, case)
    if ctx.harness_errors:
        sys.stderr.write("HARNESS-ERROR during replay:\n" + ctx.harness_errors[0] + "\n")
        sys.exit(2)
    return ctx.viols


def _replay_in_child(args):
    modname, case = args
    import importlib
    prop = importlib.import_module(modname)
    ctx = Ctx(prop.PID)
    ctx.part = "replay"
    if hasattr(prop, "setup_process"):
        prop.setup_process()
    ctx.run(prop, case)
    return {"viols": ctx.viols, "harness_errors": ctx.harness_errors}


def main(modname: str, argv: list) -> int:
    import importlib
    prop = importlib.import_module(modname)
    pid = prop.PID
    tier = env.TIER
    replay = None
    it = iter(argv)
    for a in it:
        if a == "--tier":
            tier = next(it)
        elif a == "--replay":
            replay = next(it)
    if tier not in ("quick", "thorough"):
        print(f"HARNESS-ERROR: bad tier {tier}", file=sys.stderr)
        return 2
    ctxmp = mp.get_context("fork")

    if replay is not None:
        with open(replay, encoding="utf-8") as fh:
            rec = json.load(fh)
        case = rec["case"] if isinstance(rec, dict) and "case" in rec else rec
        with ctxmp.Pool(1) as pool:
            res = pool.map(_replay_in_child, [(modname, case)])[0]
        if res["harness_errors"]:
            sys.stderr.write("HARNESS-ERROR during replay:\n" + res["harness_errors"][0] + "\n")
            return 2
        if res["viols"]:
            for sig, v in res["viols"].items():
                print(f"violation {sig}: {v['msg']}")
            print(f"VIOLATION property={pid} replay={replay}")
            return 1
        print(f"replay {replay}: property {pid} holds on this case")
        return 0

    t0 = time.time()
    known = load_known(pid)
    known_active = []
    # re-execute the witnesses of open known findings
    for f in known:
        with ctxmp.Pool(1) as pool:
            res = pool.map(_replay_in_child, [(modname, f["witness"])])[0]
        if res["harness_errors"]:
            sys.stderr.write("HARNESS-ERROR (known-finding witness):\n" + res["harness_errors"][0] + "\n")
            return 2
        if f["signature"] in res["viols"]:
            print(f"KNOWN-FINDING: property={pid} {f['what']}")
            known_active.append(f["signature"])
        else:
            print(f"note: known finding no longer reproduces ({f['signature']}); "
                  f"nothing is suppressed for it")

    parts = prop.parts(tier)
    tasks = []
    for pi, part in enumerate(parts):
        if part.kind == "hyp":
            nshards = max(1, min(max(env.NPROC, -(-part.n // part.chunk)), part.n))
            per = -(-part.n // nshards)
            for s in range(nshards):
                tasks.append((modname, tier, pi, s, nshards, per, known_active))
        else:
            nshards = part.shards or env.NPROC
            per = -(-part.n // nshards) if part.n else 0
            for s in range(nshards):
                tasks.append((modname, tier, pi, s, nshards, per, known_active))

    # saved replays first (the seconds-long regression tier)
    total = Ctx(pid, known_active)
    rdir = os.path.join(VERIF, "replays", pid)
    replayed = 0
    replay_viol = []
    if os.path.isdir(rdir):
        files = sorted(f for f in os.listdir(rdir) if f.endswith(".json"))
        recs = []
        for fn in files:
            with open(os.path.join(rdir, fn), encoding="utf-8") as fh:
                recs.append((fn, json.load(fh)))
        if recs:
            with ctxmp.Pool(min(env.NPROC, len(recs)), maxtasksperchild=1) as pool:
                outs = pool.map(_replay_in_child,
                                [(modname, r["case"]) for _, r in recs], chunksize=1)
            for (fn, r), out in zip(recs, outs):
                replayed += 1
                if out["harness_errors"]:
                    sys.stderr.write(f"HARNESS-ERROR replaying {fn}:\n" + out["harness_errors"][0] + "\n")
                    return 2
                bad = [s for s in out["viols"] if s not in known_active]
                if bad:
                    replay_viol.append((os.path.join("replays", pid, fn), bad, out["viols"]))

    merged = {"evaluations": 0, "labels": Counter(), "digests": set(), "samples": [],
              "viols": {}, "excluded": Counter(), "harness_errors": []}
    part_evals = Counter()
    with ctxmp.Pool(env.NPROC, maxtasksperchild=1) as pool:
        for d in pool.imap_unordered(_run_task, tasks, chunksize=1):
            merged["evaluations"] += d["evaluations"]
            part_evals[d["part"]] += d["evaluations"]
            merged["labels"].update(d["labels"])
            merged["digests"] |= d["digests"]
            for s in d["samples"]:
                if len(merged["samples"]) < 6:
                    merged["samples"].append(s)
            for sig, v in d["viols"].items():
                cur = merged["viols"].get(sig)
                if cur is None:
                    merged["viols"][sig] = v
                else:
                    cur["count"] += v["count"]
                    if v["size"] < cur["size"]:
                        cnt = cur["count"]
                        cur.update(v)
                        cur["count"] = cnt
            merged["excluded"].update(d["excluded"])
            merged["harness_errors"].extend(d["harness_errors"])

    if merged["harness_errors"]:
        sys.stderr.write("HARNESS-ERROR:\n" + merged["harness_errors"][0] + "\n")
        sys.stderr.write(f"({len(merged['harness_errors'])} harness errors)\n")
        return 2

    # non-vacuity floors
    floors = getattr(prop, "FLOORS", {}) if os.environ.get("VERIF_NO_FLOORS") != "1" else {}
    for lab, spec in floors.items():
        share, denom = spec if isinstance(spec, tuple) else (spec, None)
        pname = lab.split("/")[0]
        tot = merged["labels"].get(denom, 0) if denom else part_evals.get(pname, 0)
        if tot == 0:
            continue
        got = merged["labels"].get(lab, 0) / tot
        if got < share:
            sys.stderr.write(f"HARNESS-ERROR: generator below floor: {lab} "
                             f"{got:.3f} < {share}\n")
            return 2

    # shrink each new signature, write replay files
    out_lines = []
    new_viols = merged["viols"]
    os.makedirs(os.path.join(OUT, "replays", pid), exist_ok=True)
    part_index = {p.name: i for i, p in enumerate(parts)}
    for sig, v in sorted(new_viols.items()):
        best = {"case": v["case"], "msg": v["msg"]}
        pi = part_index.get(v.get("part"))
        if pi is not None and parts[pi].kind == "hyp" and \
                os.environ.get("VERIF_NO_SHRINK") != "1" and len(new_viols) <= 12:
            with ctxmp.Pool(1) as pool:
                r = pool.apply_async(_shrink_task, ((modname, tier, pi, sig,
                                                     _seed_for(pid, "shrink", 0)),))
                try:
                    res = r.get(timeout=240 if tier == "quick" else 900)
                except Exception:  # noqa: BLE001
                    res = None
            if res is not None and len(canon(res["case"])) <= v["size"]:
                best = res
        h = hashlib.sha1(sig.encode()).hexdigest()[:12]
        rel = os.path.join("replays", pid, f"found-{h}.json")
        with open(os.path.join(OUT, rel), "w", encoding="utf-8") as fh:
            json.dump({"property": pid, "signature": sig, "message": best["msg"],
                       "count_in_run": v["count"], "seed": env.SEED, "tier": tier,
                       "case": best["case"]}, fh, ensure_ascii=False, indent=1)
        print(f"violation {sig} (x{v['count']}): {best['msg']}")
        out_lines.append(f"VIOLATION property={pid} replay={rel}")
    for rel, bad, viols in replay_viol:
        for s in bad:
            print(f"violation {s} (saved replay): {viols[s]['msg']}")
        out_lines.append(f"VIOLATION property={pid} replay={rel}")

    wall = time.time() - t0
    labels = dict(sorted(merged["labels"].items()))
    nviol = len(new_viols) + len(replay_viol)
    exh_parts = [p.name for p in parts if p.exhaustive]
    level = getattr(prop, "LEVEL", "exploration")
    ev = {
        "property_id": pid,
        "tier": tier,
        "seed": env.SEED,
        "level": level,
        "coverage": {
            "evaluations": merged["evaluations"],
            "distinct_nontrivial": len(merged["digests"]),
            "rule": prop.RULE,
            "samples": merged["samples"][:6],
            "exhaustive": bool(exh_parts) and len(exh_parts) == len(parts),
            "exhaustive_parts": exh_parts,
            "evaluations_per_part": dict(part_evals),
            "labels": labels,
            "saved_replays_rerun": replayed,
            "excluded_known": dict(merged["excluded"]),
            "known_findings_active": known_active,
            "violation_signatures": sorted(new_viols),
        },
        "assumptions": env.ASSUMPTIONS + list(getattr(prop, "ASSUMPTIONS", [])),
        "wall_s": round(wall, 2),
        "violations": nviol,
    }
    os.makedirs(os.path.join(OUT, "evidence"), exist_ok=True)
    with open(os.path.join(OUT, "evidence", f"{pid}.json"), "w", encoding="utf-8") as fh:
        json.dump(ev, fh, ensure_ascii=False, indent=1, default=str)
    print(f"{pid} {tier}: evaluations={merged['evaluations']} "
          f"distinct_nontrivial={len(merged['digests'])} violations={nviol} "
          f"wall={wall:.1f}s")
    if len(merged["digests"]) < 2:
        sys.stderr.write("HARNESS-ERROR: fewer than 2 non-trivial cases\n")
        return 2
    for line in out_lines:
        print(line)
    return 1 if out_lines else 0

"""Declaration histories: valid and invalid declarations of types and units,
executed step by step against the real library, with directory invariants
(C15) and trace-freeness of rejected steps (C16).

history = {"k": "decl", "steps": [step, ...]}
step    = a universe decl (see universe.py)                       -- valid
        | {"d": "bad", "what": ..., ...}                          -- must be rejected
"""
from __future__ import annotations

import itertools
from fractions import Fraction

from hypothesis import strategies as st

from . import gen, refdata
from .model import F, exact, fs, mknum
from .universe import _uname, UGen, UModel, bm_mul, merge_items

_counter = itertools.count(1)

BAD_KINDS = ["dup_dim", "dup_dim_refsym", "dup_symbol", "dup_symbol_type", "empty_symbol", "nonstr_symbol",
             "wrong_def_type", "wrong_def_dim", "def_not_qty", "derive_on_base", "derive_wrong_count",
             "derive_wrong_order", "derive_nonunit", "derive_empty_symbol", "zero_def"]

# documented exception class per kind
EXPECT = {
    "dup_dim": ValueError, "dup_dim_refsym": ValueError, "dup_symbol": ValueError, "dup_symbol_type": ValueError,
    "empty_symbol": ValueError, "nonstr_symbol": TypeError, "wrong_def_type": TypeError, "wrong_def_dim": ValueError,
    "def_not_qty": TypeError, "derive_on_base": TypeError, "derive_wrong_count": ValueError,
    "derive_wrong_order": ValueError, "derive_nonunit": TypeError, "derive_empty_symbol": ValueError,
    "zero_def": ValueError,
}


# ---------------------------------------------------------------------------
# generator

class HGen(UGen):
    """UGen that can also emit invalid steps (they do not change the model)."""

    def _emit(self, d):
        # symbols with inner blanks / operator characters are legal symbols, too
        style = self.draw(st.sampled_from([0, 0, 0, 0, 1, 2, 3, 4]))
        if style:
            d = dict(d, symstyle=style)
        return super()._emit(d)

    def bad_step(self):
        draw = self.draw
        m = self.m
        what = BAD_KINDS[(draw(st.integers(0, len(BAD_KINDS) - 1)) + len(self.decls)) % len(BAD_KINDS)]
        lin = [t for t in m.types if t.has_ref]
        derived = [t for t in m.types if t.kind == "derived" and all(m.types[c].units for c, _ in t.defn)]
        withunits = [t for t in m.types if t.units]
        d = {"d": "bad", "what": what}
        if what in ("dup_dim", "dup_dim_refsym"):
            # spell a taken dimension differently: X * Y / Y, or D * B for D = A / B, or the same definition again
            target = draw(st.sampled_from(m.types))
            other = draw(st.sampled_from(m.types))
            e = draw(st.sampled_from([1, 2, -1]))
            if target.kind == "derived" and draw(st.booleans()):
                items = [list(x) for x in target.defn]
                if draw(st.booleans()):
                    items = items + [[other.idx, e], [other.idx, -e]]
            else:
                items = [[target.idx, 1], [other.idx, e], [other.idx, -e]]
            items = list(draw(st.permutations(items)))
            if not merge_items([tuple(i) for i in items]):
                return None
            if len(merge_items([tuple(i) for i in items])) == 1 and merge_items([tuple(i) for i in items])[0][1] == 1 \
                    and False:
                return None
            d.update(defn=items, how=draw(st.sampled_from(["ops", "term"])),
                     refsym=(what == "dup_dim_refsym"))
            return d
        if what in ("dup_symbol", "dup_symbol_type"):
            if not m.units:
                return None
            victim = draw(st.integers(0, len(m.units) - 1))
            if what == "dup_symbol":
                if not withunits:
                    return None
                t = draw(st.sampled_from(withunits))
                d.update(t=t.idx, victim=victim, of=draw(st.sampled_from(t.units)) if t.has_ref else None)
            else:
                d.update(victim=victim, ref=True)
            return d
        if what in ("empty_symbol", "nonstr_symbol"):
            t = draw(st.sampled_from(m.types))
            d.update(t=t.idx, of=draw(st.sampled_from(t.units)) if t.has_ref and t.units else None,
                     sym=draw(st.sampled_from([None, 5, 1.5, ["x"]])) if what == "nonstr_symbol" else "")
            return d
        if what == "wrong_def_type":
            if len(withunits) < 2:
                return None
            t1, t2 = draw(st.permutations(withunits))[:2]
            d.update(t=t1.idx, of=draw(st.sampled_from(t2.units)),
                     f=draw(gen.encode(gen.fractions(positive=True), ("int", "dec", "frac"))))
            return d
        if what == "wrong_def_dim":
            if len(withunits) < 1 or not lin:
                return None
            t = draw(st.sampled_from(m.types))
            # a term whose dimension differs from t's
            for _ in range(3):
                us = [draw(st.sampled_from(draw(st.sampled_from(withunits)).units)) for _ in range(draw(st.integers(1, 3)))]
                items = [[u, draw(st.sampled_from([1, -1, 2]))] for u in us]
                bmap = {}
                for u, e in items:
                    bmap = bm_mul(bmap, m.units[u].bmap, e)
                if m.dims_of_bmap(bmap) != t.dims:
                    d.update(t=t.idx, items=items)
                    return d
            return None
        if what == "def_not_qty":
            t = draw(st.sampled_from(m.types))
            d.update(t=t.idx, val=draw(st.sampled_from([5, "x", 1.5])))
            return d
        if what == "zero_def":
            # a unit of size zero (since finding 20 a rejected declaration): 0 x unit, as quantity or as term
            if not withunits:
                return None
            t = draw(st.sampled_from(withunits))
            d.update(t=t.idx, of=draw(st.sampled_from(t.units)), as_term=draw(st.booleans()))
            return d
        if what == "derive_on_base":
            base = [t for t in m.types if t.kind == "base" and t.units]
            if not base:
                return None
            t = draw(st.sampled_from(base))
            d.update(t=t.idx, args=[draw(st.sampled_from(t.units))])
            return d
        if what in ("derive_wrong_count", "derive_wrong_order", "derive_nonunit", "derive_empty_symbol"):
            if not derived:
                return None
            t = draw(st.sampled_from(derived))
            args = [draw(st.sampled_from(m.types[c].units)) for c, _ in t.defn]
            if what == "derive_wrong_count":
                args = args[:-1] if draw(st.booleans()) or len(args) > 3 else args + [args[0]]
            elif what == "derive_wrong_order":
                if len(args) < 2 or len({m.units[a].t for a in args}) < 2:
                    # replace an argument by a unit of another type
                    others = [x for x in withunits if x.idx != m.units[args[0]].t]
                    if not others:
                        return None
                    args[0] = draw(st.sampled_from(draw(st.sampled_from(others)).units))
                else:
                    args = list(reversed(args))
                    if [m.units[a].t for a in args] == [c for c, _ in t.defn]:
                        return None
            elif what == "derive_nonunit":
                args[draw(st.integers(0, len(args) - 1))] = "NOTAUNIT"
            d.update(t=t.idx, args=args)
            return d
        return None

    def grow_with_faults(self, n_base, n_steps, fault_rate):
        for _ in range(n_base):
            self.base_type()
        for t in list(self.m.types):
            if not t.has_ref:
                for _ in range(self.draw(st.integers(1, 2))):
                    self._emit({"d": "unit", "t": t.idx, "how": "bare"})
        for _ in range(n_steps):
            if self.draw(st.sampled_from([False] * (100 - fault_rate) + [True] * fault_rate)):
                b = self.bad_step()
                if b is not None:
                    self.decls.append(b)
                    continue
            if self.draw(st.integers(0, 3)) == 0:
                self.derived_type()
            else:
                self.unit()


@st.composite
def histories(draw, fault_rate=30, max_steps=14):
    g = HGen(draw, allow_noref=True, allow_quantum=True)
    g.grow_with_faults(draw(st.integers(1, 3)), draw(st.integers(3, max_steps)), fault_rate)
    return {"k": "decl", "steps": g.decls, "reuse": draw(st.booleans())}


# ---------------------------------------------------------------------------
# interpreter

class World:
    """Real objects + model, grown step by step."""

    def __init__(self):
        self.prefix = f"h{next(_counter)}"
        self.m = UModel()
        self.types = []
        self.units = []
        self.syms = []
        self.nsym = itertools.count()
        self.attempted = []       # symbols of rejected attempts
        self.ns = {}              # one namespace dict shared by all functional type declarations

    def newsym(self, style=0):
        """style 0: plain token; 1: inner blank; 2: non-ASCII / operator characters; 3: several blanks;
        4: characters that Unicode normalisation would change (OHM SIGN, a combining accent)"""
        n = next(self.nsym)
        return {0: f"{self.prefix}u{n}", 1: f"{self.prefix} u{n}", 2: f"{self.prefix}µ·{n}²/x",
                3: f"{self.prefix} sq  u {n}", 4: f"{self.prefix}\u2126a\u0301{n}"}[style or 0]


def _defn_obj(w: World, items, how):
    from quantity.term import Term
    objs = [(w.types[ti], e) for ti, e in items]
    if how == "term":
        return Term(objs)
    defn = None
    for c, e in objs:
        if defn is None:
            defn = c if e == 1 and len(objs) > 1 else c ** e
        elif e == 1:
            defn = defn * c
        elif e == -1:
            defn = defn / c
        elif e > 0:
            defn = defn * (c ** e)
        else:
            defn = defn / (c ** -e)
    return defn


def exec_valid(w: World, d, sym=None):
    """Execute a valid declaration; returns nothing, raises what the library raises."""
    from quantity import Quantity, QuantityMeta
    from quantity.term import Term
    import quantity.si_prefixes as sip
    if d["d"] == "type":
        name = f"{w.prefix.upper()}T{len(w.types)}"
        tmp = UModel.__new__(UModel)
        tmp.types, tmp.units = list(w.m.types), list(w.m.units)
        kw = {}
        if d.get("quantum"):
            kw["quantum"] = mknum(d["quantum"])
        if d["kind"] == "base":
            if d["ref"]:
                kw.update(ref_unit_symbol=sym or w.newsym(d.get("symstyle")), ref_unit_name=f"ref of {name}")
        else:
            kw["define_as"] = _defn_obj(w, d["def"], d["how"])
            has_ref = all(w.m.types[ti].has_ref for ti, _ in d["def"])
            if has_ref and d.get("refsym"):
                kw.update(ref_unit_symbol=sym or w.newsym(d.get("symstyle")), ref_unit_name=f"ref of {name}")
        cls = QuantityMeta(name, (Quantity,), w.ns, **kw)
        mt = w.m.add_type(d)
        w.types.append(cls)
        if mt.has_ref:
            w.units.append(cls.ref_unit)
            w.syms.append(cls.ref_unit.symbol)
        return cls
    cls = w.types[d["t"]]
    how = d["how"]
    sym = sym or w.newsym(d.get("symstyle"))
    if how == "bare":
        u = cls.new_unit(sym, _uname(sym))
    elif how == "scaled":
        of = w.units[d["of"]]
        f = d["f"]
        fo = getattr(sip, f[1]) if f[0] == "si" else mknum(f)
        qty = fo * of if d["side"] == "l" else of * fo
        u = cls.new_unit(sym, _uname(sym), qty)
    elif how == "derive":
        args = [w.units[a] for a in d["args"]]
        u = cls.derive_unit_from(*args, symbol=sym, name=_uname(sym)) if d.get("sym") else cls.derive_unit_from(*args)
    else:
        items = [((w.units[el] if isinstance(el, int) else mknum(el)), e) for el, e in d["items"]]
        u = cls.new_unit(sym, _uname(sym), Term(items))
    w.m.add_unit(d)
    w.units.append(u)
    w.syms.append(u.symbol)
    return u


def exec_bad(w: World, d):
    """Attempt an invalid declaration. Returns (attempted_symbol or None, callable)."""
    from quantity import Quantity, QuantityMeta
    from quantity.term import Term
    what = d["what"]
    if what in ("dup_dim", "dup_dim_refsym"):
        name = f"{w.prefix.upper()}BAD{next(w.nsym)}"
        kw = {"define_as": _defn_obj(w, d["defn"], d["how"])}
        sym = None
        if d.get("refsym"):
            sym = w.newsym()
            kw.update(ref_unit_symbol=sym, ref_unit_name="rejected")
        return sym, lambda: QuantityMeta(name, (Quantity,), {}, **kw)
    if what == "dup_symbol":
        cls = w.types[d["t"]]
        sym = w.syms[d["victim"]]
        if d.get("of") is not None:
            of = w.units[d["of"]]
            return None, lambda: cls.new_unit(sym, "dup", 3 * of)
        return None, lambda: cls.new_unit(sym, "dup")
    if what == "dup_symbol_type":
        sym = w.syms[d["victim"]]
        name = f"{w.prefix.upper()}BAD{next(w.nsym)}"
        return None, lambda: QuantityMeta(name, (Quantity,), {}, ref_unit_symbol=sym, ref_unit_name="dup")
    if what in ("empty_symbol", "nonstr_symbol"):
        cls = w.types[d["t"]]
        sym = d["sym"]
        if isinstance(sym, list):
            sym = tuple(sym)
        if d.get("of") is not None:
            of = w.units[d["of"]]
            return None, lambda: cls.new_unit(sym, "bad", 3 * of)
        return None, lambda: cls.new_unit(sym, "bad")
    if what == "wrong_def_type":
        cls = w.types[d["t"]]
        of = w.units[d["of"]]
        sym = w.newsym()
        return sym, lambda: cls.new_unit(sym, "bad", mknum(d["f"]) * of)
    if what == "wrong_def_dim":
        cls = w.types[d["t"]]
        sym = w.newsym()
        items = [(w.units[u], e) for u, e in d["items"]]
        return sym, lambda: cls.new_unit(sym, "bad", Term(items))
    if what == "def_not_qty":
        cls = w.types[d["t"]]
        sym = w.newsym()
        return sym, lambda: cls.new_unit(sym, "bad", d["val"])
    if what == "zero_def":
        cls = w.types[d["t"]]
        of = w.units[d["of"]]
        sym = w.newsym()
        if d.get("as_term"):
            return sym, lambda: cls.new_unit(sym, "bad", Term(((0, 1), (of, 1))))
        return sym, lambda: cls.new_unit(sym, "bad", 0 * of)
    if what in ("derive_on_base", "derive_wrong_count", "derive_wrong_order", "derive_nonunit",
                "derive_empty_symbol"):
        cls = w.types[d["t"]]
        args = [w.units[a] if isinstance(a, int) else a for a in d["args"]]
        if what == "derive_empty_symbol":
            return None, lambda: cls.derive_unit_from(*args, symbol="")
        sym = w.newsym()
        return sym, lambda: cls.derive_unit_from(*args, symbol=sym)
    raise ValueError(what)


def registry_sizes():
    import quantity
    from quantity import QuantityMeta
    out = {}
    try:
        out["symbols"] = len(quantity._SYMBOL_UNIT_MAP)
        out["term_units"] = sum(len(b) for b in quantity._TERM_UNIT_MAP._item_list)
        out["types"] = len(QuantityMeta._registry)
    except AttributeError:
        pass
    return out


def observe(w: World, extra_syms=()):
    """Observable state of the directories for this world (C16)."""
    from quantity import Quantity, QuantityError, Unit
    obs = {}
    for i, cls in enumerate(w.types):
        obs[f"units/{i}"] = tuple(id(u) for u in cls.units())
        obs[f"len/{i}"] = len(cls)
        obs[f"ref/{i}"] = id(cls.ref_unit)
    obs["quantity_units"] = len(Quantity.units())
    for s in list(w.syms) + list(extra_syms) + list(w.attempted):
        try:
            obs[f"sym/{s}"] = id(Unit(s))
        except ValueError:
            obs[f"sym/{s}"] = "unknown"
        except Exception as exc:  # noqa: BLE001
            obs[f"sym/{s}"] = f"raises {type(exc).__name__}"
        try:
            obs[f"parse/{s}"] = type(Quantity(f"1 {s}")).__name__
        except QuantityError:
            obs[f"parse/{s}"] = "QuantityError"
        except Exception as exc:  # noqa: BLE001
            obs[f"parse/{s}"] = f"raises {type(exc).__name__}"
    obs.update({f"reg/{k}": v for k, v in registry_sizes().items()})
    return obs


def check_coherence(w: World, v15, full=True):
    """C15 invariants over everything declared so far in this world."""
    from quantity import Quantity, QuantityError, Unit
    m = w.m
    qunits = set(id(u) for u in Quantity.units())
    for ti, cls in enumerate(w.types):
        mt = m.types[ti]
        want = [w.units[u] for u in mt.units]
        got = list(cls.units())
        if len(got) != len(want) or set(map(id, got)) != set(map(id, want)) or len(cls) != len(want):
            v15("listing", f"type #{ti} lists {[str(u) for u in got]}, declared {[str(u) for u in want]}")
        if mt.has_ref:
            ru = cls.ref_unit
            if ru is None or ru is not w.units[mt.ref_uid]:
                v15("ref_unit", f"type #{ti}: ref_unit is {ru}")
        elif cls.ref_unit is not None:
            v15("ref_unit", f"type #{ti} has a reference unit although a component type has none")
    for uid, u in enumerate(w.units):
        mu = m.units[uid]
        s = w.syms[uid]
        cls = w.types[mu.t]
        try:
            found = Unit(s)
        except ValueError:
            v15("symbol_lookup", f"Unit({s!r}) is unknown although declared")
            continue
        if found is not u or u.symbol != s:
            v15("symbol_lookup", f"Unit({s!r}) is not the declared object")
        if u.qty_cls is not cls:
            v15("qty_cls", f"unit {s} belongs to {u.qty_cls.__name__}, declared for {cls.__name__}")
        if s not in cls or cls.get_unit_by_symbol(s) is not u or s not in list(cls):
            v15("own_listing", f"{cls.__name__} does not list its unit {s}")
        for tj, other in enumerate(w.types):
            if other is not cls and (s in other or any(x is u for x in other.units())):
                v15("foreign_listing", f"unit {s} of {cls.__name__} is also listed by {other.__name__}")
        if id(u) in qunits or s in Quantity:
            v15("base_class_listing", f"unit {s} of {cls.__name__} is also listed by the base class Quantity")
        if not full:
            continue
        x = Fraction(3)
        uq = m.unit_quantum(uid)
        if uq is not None:
            x = 3 * uq
        try:
            q1, q2, q3, q4 = Quantity(x, u), Quantity(f"{x.numerator}/{x.denominator} {s}"), x * u, cls(x, u)
        except Exception as exc:  # noqa: BLE001
            v15(f"construct/{type(exc).__name__}", f"constructing a quantity in {s} raised {type(exc).__name__}: {exc}")
            continue
        for q in (q1, q2, q3, q4):
            if type(q) is not cls or q.unit is not u or F(q.amount) != x:
                v15("instance_type", f"quantity built with unit {s} is {q!r}, expected a {cls.__name__} of {fs(x)}")
        for tj, other in enumerate(w.types):
            if other is not cls:
                try:
                    other(x, u)
                except QuantityError:
                    pass
                except Exception as exc:  # noqa: BLE001
                    v15(f"foreign_ctor/{type(exc).__name__}", f"{other.__name__}(x, {s}) raised {type(exc).__name__}")
                else:
                    v15("foreign_ctor/accepted", f"{other.__name__}(x, {s}) accepted a unit of {cls.__name__}")
                break
        mt = m.types[mu.t]
        if mt.has_ref:
            ref = cls.ref_unit
            try:
                conv = Quantity(x, u).convert(ref)
            except Exception as exc:  # noqa: BLE001
                v15(f"scale/raises/{type(exc).__name__}", f"converting {s} [{mu.how}] to the reference unit raised "
                    f"{type(exc).__name__}: {exc}")
                continue
            want = x * mu.factor
            if mt.quantum is not None and (want / mt.quantum).denominator != 1:
                pass
            elif F(conv.amount) != want:
                v15(f"scale/{mu.how}", f"unit {s} [{mu.how}]: {fs(x)} {s} = {fs(F(conv.amount))} reference units; its "
                    f"definition denotes the scale {fs(mu.factor)}")
        if mt.has_ref and len(mt.units) >= 2:
            # ... and relative to its neighbour unit of the same type (the ratio of two definitions)
            other = mt.units[(mt.units.index(uid) + 1) % len(mt.units)]
            mo = m.units[other]
            try:
                conv2 = Quantity(x, u).convert(w.units[other])
            except Exception as exc:  # noqa: BLE001
                v15(f"scale_pair/raises/{type(exc).__name__}", f"converting {s} to {w.syms[other]} raised "
                    f"{type(exc).__name__}: {exc}")
            else:
                want2 = x * mu.factor / mo.factor
                qo = m.unit_quantum(other)
                if isinstance(conv2.amount, float):
                    v15("scale_pair/float", f"{fs(x)} {s} [{mu.how}] in {w.syms[other]} [{mo.how}] is the float "
                        f"{conv2.amount!r}")
                elif (qo is None or (want2 / qo).denominator == 1) and F(conv2.amount) != want2:
                    v15(f"scale_pair/{mu.how}.{mo.how}", f"{fs(x)} {s} [{mu.how}] = {fs(F(conv2.amount))} "
                        f"{w.syms[other]} [{mo.how}]; the definitions denote {fs(want2)}")
        if mu.how == "ref" and mt.kind == "derived":
            nd = u.normalized_definition
            got = {}
            bad = False
            for el, e in nd:
                if isinstance(el, Unit):
                    if el.symbol in w.syms:
                        got[w.syms.index(el.symbol)] = e
                    else:
                        bad = True
                else:
                    bad = True
            if bad or got != mu.bmap:
                v15("derived_ref_unit", f"reference unit {s} of derived type #{mu.t} normalises to {nd!r}; expected the "
                    f"product of the base reference units {mu.bmap}")
            ps = m.predicted_symbol(uid, w.syms)
            if ps is not None and mu.auto_symbol and s != ps:
                v15("auto_symbol", f"generated symbol {s!r}, expected {ps!r}")


def run_history(case, ctx, v15, v16, coherence_every_step=True):
    """Interpret a declaration history. v15/v16: callables (sig, msg)."""
    from quantity import Quantity, QuantityError, Unit
    w = World()
    rejected = 0
    reused = 0
    derived_seen = chained = False
    pending_reuse = []
    for i, d in enumerate(case["steps"]):
        if d["d"] != "bad":
            try:
                exec_valid(w, d)
            except Exception as exc:  # noqa: BLE001
                if isinstance(exc, ValueError) and d["d"] == "type" and \
                        d["kind"] == "derived" and not d.get("refsym") and \
                        any(not w.m.units[w.m.types[ti].ref_uid].plain_symbol for ti, _ in d["def"]
                            if w.m.types[ti].has_ref):
                    # generated symbols are plain concatenations: 'a·b' cubed reads like a·(b cubed). The clash is
                    # a duplicate symbol and is rejected as the property demands; the history ends here.
                    ctx.label("auto_symbol_collision")
                    return w
                v15(f"valid_rejected/{d['d']}/{d.get('how', d.get('kind'))}/{type(exc).__name__}",
                    f"valid declaration #{i} {d} raised {type(exc).__name__}: {exc}")
                return w
            if d["d"] == "type" and d["kind"] == "derived":
                derived_seen = True
            if d["d"] == "unit" and d["how"] in ("term", "derive") or \
                    (d["d"] == "unit" and d["how"] == "scaled" and w.m.units[d["of"]].how != "ref"):
                chained = True
            if coherence_every_step:
                check_coherence(w, v15, full=False)
            continue
        what = d["what"]
        ctx.label(f"bad/{what}")
        before = observe(w)
        sym, fn = exec_bad(w, d)
        extra = [sym] if sym else []
        auto = None
        if what == "dup_dim" and all(w.m.types[ti].has_ref for ti, _ in d["defn"]):
            # predicted auto symbol of the rejected type's reference unit
            items = merge_items([tuple(x) for x in d["defn"]])
            pos = [w.syms[w.m.types[ti].ref_uid] + {1: ""}.get(abs(e), "⁰¹²³⁴⁵⁶⁷⁸⁹"[abs(e)]) for ti, e in items if e > 0]
            neg = [w.syms[w.m.types[ti].ref_uid] + {1: ""}.get(abs(e), "⁰¹²³⁴⁵⁶⁷⁸⁹"[abs(e)]) for ti, e in items if e < 0]
            if all(w.m.units[w.m.types[ti].ref_uid].plain_symbol for ti, _ in items):
                auto = ("·".join(pos) if pos else "1") + (("/" + "·".join(neg)) if neg else "")
                if auto not in w.syms:
                    extra.append(auto)
        before_extra = observe(w, extra)
        try:
            res = fn()
        except EXPECT[what]:
            pass
        except (ValueError, TypeError) as exc:
            v15(f"bad/{what}/wrong_exception", f"invalid declaration #{i} ({what}) raised {type(exc).__name__}: {exc}; "
                f"documented: {EXPECT[what].__name__}")
        except Exception as exc:  # noqa: BLE001
            v15(f"bad/{what}/{type(exc).__name__}", f"invalid declaration #{i} ({what}) raised {type(exc).__name__}: {exc}")
            v16(f"bad/{what}/{type(exc).__name__}", f"invalid declaration #{i} ({what}) raised {type(exc).__name__}: {exc}")
            return w
        else:
            v15(f"bad/{what}/accepted", f"invalid declaration #{i} ({what}: {d}) was accepted: {res!r}")
            v16(f"bad/{what}/accepted", f"invalid declaration #{i} ({what}: {d}) was accepted: {res!r}")
            return w
        rejected += 1
        w.attempted.extend(extra)
        after = observe(w, extra)
        if after != before_extra:
            diff = sorted(k for k in after if after[k] != before_extra.get(k))
            kinds = sorted({k.split("/")[0] for k in diff})
            v16(f"trace/{what}/{'+'.join(kinds)}", f"rejected declaration #{i} ({what}: {d}) left a trace: " +
                "; ".join(f"{k}: {before_extra.get(k)} -> {after[k]}" for k in diff[:6]))
        if case.get("reuse") and extra and all(extra[0] != s0 for _, _, s0 in pending_reuse):
            pending_reuse.append((i, what, extra[0]))
    # the attempted symbols stay available: declare each as a unit of a dedicated fresh type without reference
    # unit (so that the extra units can never be the result of an operation on the history's own units)
    reuse_cls = None
    for i, what, s0 in pending_reuse:
        from quantity import QuantityMeta
        try:
            if reuse_cls is None:
                reuse_cls = QuantityMeta(f"{w.prefix.upper()}REUSE", (Quantity,), {})
            ru = reuse_cls.new_unit(s0, "declared after a rejected attempt")
            if Unit(s0) is not ru or type(Quantity(f"1 {s0}")) is not reuse_cls or ru.qty_cls is not reuse_cls:
                v16(f"reuse/{what}/incoherent", f"symbol {s0!r} re-declared after the rejected declaration #{i} ({what}) "
                    "does not resolve to the new unit")
                return w
            reused += 1
            ctx.label("reused_symbol")
            if s0 in w.attempted:
                w.attempted.remove(s0)
        except Exception as exc:  # noqa: BLE001
            v16(f"reuse/{what}/{type(exc).__name__}", f"after the rejected declaration #{i} ({what}) the symbol "
                f"{s0!r} could not be declared validly: {type(exc).__name__}: {exc}")
            return w
    check_coherence(w, v15, full=True)
    ctx.label("histories")
    if rejected:
        ctx.label("with_rejections")
    w.stats = {"rejected": rejected, "reused": reused, "derived": derived_seen, "chained": chained}
    return w

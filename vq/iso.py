"""Independent parse of the bundled ISO 4217 table (oracle for C05/C08/C10).

Reads the XML shipped in the working tree with xml.etree directly; shares no
code with quantity.money.currencies.
"""
import os
from fractions import Fraction
from xml.etree import ElementTree as ET

from . import env

_PATH = os.path.join(env.REPO, "src", "quantity", "money", "iso_4217.xml")


def load():
    """-> {code: (name, numeric code, minor units, [countries])} for entries
    that have an alphabetic code, an all-digit number and all-digit minor units
    (the 'functional currencies'); first occurrence wins for name/number."""
    out = {}
    root = ET.parse(_PATH).getroot()
    for ntry in root.iter("CcyNtry"):
        f = {c.tag: (c.text or "") for c in ntry}
        code, num, minor = f.get("Ccy"), f.get("CcyNbr"), f.get("CcyMnrUnts")
        if not code or num is None or minor is None:
            continue
        if not (num.isdigit() and minor.isdigit()):
            continue
        if code not in out:
            out[code] = (f.get("CcyNm", ""), int(num), int(minor), [f.get("CtryNm", "")])
        else:
            out[code][3].append(f.get("CtryNm", ""))
    return out


def all_codes_in_file():
    root = ET.parse(_PATH).getroot()
    return sorted({(c.text or "") for c in root.iter("Ccy")})


TABLE = load()


def fraction_of(code) -> Fraction:
    return Fraction(1, 10 ** TABLE[code][2])

"""Process environment for every check: substrate switch, import path, shim.

Must be imported before `decimalfp` / `quantity` are imported anywhere.
See DESIGN.md section 2.1.
"""
import os
import sys

os.environ["DECIMALFP_FORCE_PYTHON_IMPL"] = "1"
os.environ.setdefault("MAMRHEIN_QUANTITY_VERIF", "1")

VERIF_DIR = os.path.dirname(os.path.dirname(os.path.abspath(__file__)))
REPO = os.environ.get("VERIF_REPO", "/repo")
_src = os.path.join(REPO, "src")
if not os.path.isdir(os.path.join(_src, "quantity")):
    sys.stderr.write(f"HARNESS-ERROR: no quantity sources under {_src}\n")
    sys.exit(2)
# the working tree first, whatever is installed in site-packages
sys.path.insert(0, _src)
_deps = os.path.join(VERIF_DIR, ".deps")
if os.path.isdir(_deps) and _deps not in sys.path:
    sys.path.append(_deps)

SEED = int(os.environ.get("VERIF_SEED", "1") or "1")
TIER = os.environ.get("VERIF_TIER", "quick")
NPROC = int(os.environ.get("VERIF_NPROC", "0") or "0") or min(16, os.cpu_count() or 1)

import decimalfp  # noqa: E402

import decimalfp._pydecimalfp as _pyd  # noqa: E402

if decimalfp.Decimal is not _pyd.Decimal:
    sys.stderr.write("HARNESS-ERROR: decimalfp C extension active; "
                     "DECIMALFP_FORCE_PYTHON_IMPL was set too late\n")
    sys.exit(2)

SHIM_STATE = "not installed"


def _only_2_5(den: int) -> bool:
    den = abs(den)
    while den % 10 == 0:
        den //= 10
    while den % 2 == 0:
        den //= 2
    while den % 5 == 0:
        den //= 5
    return den == 1


def _install_shim() -> None:
    """Make non-terminating quotients fail fast in the pure-Python decimalfp.

    `_approx_rational(num, den)` tries precisions up to 65535 before giving up
    with a non-zero remainder.  Both call sites only test `remainder != 0` in
    that case.  If the reduced denominator has a prime factor other than 2 and
    5 the remainder can never be zero, so we answer at once.
    """
    global SHIM_STATE
    from math import gcd
    import random
    orig = _pyd._approx_rational
    if getattr(orig, "_vq_shim", False):
        SHIM_STATE = "installed"
        return
    MAXP = _pyd.MAX_DEC_PRECISION

    def fast(num, den, min_prec=0):
        if num != 0 and den != 0:
            g = gcd(num, den)
            if not _only_2_5(den // g):
                return 0, MAXP, 1
        return orig(num, den, min_prec)

    fast._vq_shim = True
    # self-test: differential against the original on seeded pairs
    rnd = random.Random(12345)
    for i in range(120):
        num = rnd.randint(-10 ** rnd.randint(0, 12), 10 ** rnd.randint(0, 12))
        if i % 20:
            den = 2 ** rnd.randint(0, 12) * 5 ** rnd.randint(0, 8)
        else:       # a few non-terminating ones (the original needs ~40 ms for each)
            den = rnd.randint(1, 5000)
        a = orig(num, den, 0)
        b = fast(num, den, 0)
        if (a[2] == 0) != (b[2] == 0) or (a[2] == 0 and a != b):
            SHIM_STATE = "self-test failed; running without shim"
            return
    _pyd._approx_rational = fast
    SHIM_STATE = "installed"


_install_shim()

ASSUMPTIONS = [
    "code under test runs on decimalfp's pure-Python implementation "
    "(DECIMALFP_FORCE_PYTHON_IMPL=1): the installed C extension 0.13.0 "
    "corrupts the heap (DESIGN.md 2.1)",
    f"performance shim on decimalfp._pydecimalfp._approx_rational: {SHIM_STATE} "
    "(fails fast on non-terminating quotients; self-tested differential)",
    "oracle arithmetic uses only Python int / fractions.Fraction",
    f"sources under test: {_src} (working tree)",
]

"""Generated universes of user-declared quantity types and units.

A universe is pure data (`spec`): an ordered list of declarations.  From the
spec alone `UModel` computes, with Fractions and dicts only, every type's
dimension vector and every unit's exact expansion into base units.  `build`
executes the same spec against the real library under fresh names.

spec = {"decls": [decl, ...]}
decl = {"d": "type", "kind": "base", "ref": bool, "quantum": enc|None}
     | {"d": "type", "kind": "derived", "def": [[ti, exp], ...], "how": "ops"|"term",
        "refsym": bool, "quantum": enc|None}
     | {"d": "unit", "t": ti, "how": "scaled", "of": uid, "f": enc | ["si", NAME], "side": "l"|"r"}
     | {"d": "unit", "t": ti, "how": "term", "items": [[uid | enc, exp], ...]}
     | {"d": "unit", "t": ti, "how": "derive", "args": [uid, ...], "sym": bool}
     | {"d": "unit", "t": ti, "how": "bare"}
Types are numbered in order of declaration; units in order of creation,
reference units (created implicitly with their type) included.
"""
from __future__ import annotations

import itertools
from fractions import Fraction

from hypothesis import strategies as st

from . import gen, refdata
from .model import F, exact, fs, is_dec_repr, mknum

_counter = itertools.count(1)

SUP = {2: "²", 3: "³", 4: "⁴", 5: "⁵", 6: "⁶", 7: "⁷", 8: "⁸", 9: "⁹"}


# ---------------------------------------------------------------------------
# model

def bm_mul(a: dict, b: dict, n: int = 1) -> dict:
    out = dict(a)
    for k, e in b.items():
        v = out.get(k, 0) + e * n
        if v:
            out[k] = v
        else:
            out.pop(k, None)
    return out


def bm_pow(a: dict, n: int) -> dict:
    return {k: e * n for k, e in a.items() if e * n}


def merge_items(items):
    """Merge repeated elements in order of first appearance, drop zero exps."""
    order, acc = [], {}
    for el, e in items:
        if el not in acc:
            order.append(el)
            acc[el] = 0
        acc[el] += e
    return [(el, acc[el]) for el in order if acc[el] != 0]


class MT:
    def __init__(self, idx, kind, dims, has_ref, quantum, defn):
        self.idx, self.kind, self.dims, self.has_ref = idx, kind, dims, has_ref
        self.quantum, self.defn = quantum, defn     # defn: merged [(ti, exp)] or None
        self.ref_uid = None
        self.units = []


class MU:
    def __init__(self, uid, t, factor, bmap, is_base, how):
        self.uid, self.t, self.factor, self.bmap = uid, t, factor, bmap
        self.is_base, self.how = is_base, how
        self.plain_symbol = True       # symbol is a plain alphanumeric token
        self.items = None              # definition items (for symbol prediction)


class UModel:
    """Independent model of a universe (no library involved)."""

    def __init__(self):
        self.types: list[MT] = []
        self.units: list[MU] = []

    # -- declarations -----------------------------------------------------
    def dims_of_def(self, items):
        d = {}
        for ti, e in items:
            d = bm_mul(d, self.types[ti].dims, e)
        return d

    def type_with_dims(self, dims):
        for t in self.types:
            if t.dims == dims:
                return t
        return None

    def add_type(self, decl) -> MT:
        idx = len(self.types)
        q = exact(decl["quantum"]) if decl.get("quantum") else None
        if decl["kind"] == "base":
            t = MT(idx, "base", {idx: 1}, bool(decl["ref"]), q, None)
            self.types.append(t)
            if t.has_ref:
                u = self._new_unit(idx, Fraction(1), None, True, "ref")
                t.ref_uid = u.uid
        else:
            items = merge_items([(a, b) for a, b in decl["def"]])
            dims = self.dims_of_def(items)
            has_ref = all(self.types[ti].has_ref for ti, _ in items)
            t = MT(idx, "derived", dims, has_ref, q, items)
            self.types.append(t)
            if has_ref:
                bmap = {}
                for ti, e in items:
                    bmap = bm_mul(bmap, self.units[self.types[ti].ref_uid].bmap, e)
                u = self._new_unit(idx, Fraction(1), bmap, False, "ref")
                u.items = [(self.types[ti].ref_uid, e) for ti, e in items]
                u.plain_symbol = bool(decl.get("refsym"))
                t.ref_uid = u.uid
        return t

    def _new_unit(self, ti, factor, bmap, is_base, how) -> MU:
        uid = len(self.units)
        if bmap is None:
            bmap = {uid: 1}
        u = MU(uid, ti, factor, bmap, is_base, how)
        self.units.append(u)
        self.types[ti].units.append(uid)
        return u

    def unit_quantum(self, uid):
        u = self.units[uid]
        q = self.types[u.t].quantum
        return None if q is None else q / u.factor

    def add_unit(self, decl) -> MU:
        ti, how = decl["t"], decl["how"]
        if how == "bare":
            return self._new_unit(ti, Fraction(1), None, True, how)
        if how == "scaled":
            of = self.units[decl["of"]]
            f = decl["f"]
            fv = Fraction(10) ** refdata.SI_PREFIX_EXP[f[1]] if f[0] == "si" else exact(f)
            return self._new_unit(ti, fv * of.factor, dict(of.bmap), False, how)
        if how == "derive":
            t = self.types[ti]
            factor, bmap = Fraction(1), {}
            items = []
            for (cti, e), uid in zip(t.defn, decl["args"]):
                a = self.units[uid]
                factor *= a.factor ** e
                bmap = bm_mul(bmap, a.bmap, e)
                items.append((uid, e))
            u = self._new_unit(ti, factor, bmap, False, how)
            u.items = items
            u.plain_symbol = bool(decl.get("sym"))
            return u
        if how == "term":
            factor, bmap = Fraction(1), {}
            for el, e in decl["items"]:
                if isinstance(el, int):
                    a = self.units[el]
                    factor *= a.factor ** e
                    bmap = bm_mul(bmap, a.bmap, e)
                else:
                    factor *= exact(el) ** e
            return self._new_unit(ti, factor, bmap, False, how)
        raise ValueError(how)

    # -- queries ------------------------------------------------------------
    def scale(self, uid) -> Fraction:
        """Scale relative to the reference unit (linear types only)."""
        return self.units[uid].factor

    def is_linear(self, ti) -> bool:
        return self.types[ti].has_ref

    def all_ref_bases(self, bmap) -> bool:
        for b in bmap:
            bu = self.units[b]
            if self.types[bu.t].ref_uid != b:
                return False
        return True

    def dims_of_bmap(self, bmap):
        d = {}
        for b, e in bmap.items():
            d = bm_mul(d, {self.units[b].t: 1}, e)
        return d

    def result(self, factor: Fraction, bmap: dict, declared_types=None, declared_units=None):
        """Classify a product expansion (optionally w.r.t. a subset of the declarations).

        -> ("number", factor) | ("type", ti) | ("units", [uids]) | ("undefined",) | ("ambiguous",)
        """
        if not bmap:
            return ("number", factor)
        if self.all_ref_bases(bmap):
            t = self.type_with_dims(self.dims_of_bmap(bmap))
            if t is not None and declared_types is not None and t.idx not in declared_types:
                t = None
            if t is None:
                return ("undefined",)
            if t.has_ref:
                return ("type", t.idx)
            # a type built from components without reference unit has no
            # reference unit itself: only its declared units can carry a result
        cands = [u.uid for u in self.units if u.bmap == bmap and (declared_units is None or u.uid in declared_units)]
        if not cands:
            return ("undefined",)
        good = [c for c in cands if self.units[c].factor in (1, factor)]
        if good:
            return ("units", cands)
        return ("ambiguous",)

    def predicted_symbol(self, uid, syms):
        """Auto-generated symbol of a derived/ref unit whose components have plain symbols."""
        u = self.units[uid]
        if u.items is None:
            return None
        pos, neg = [], []
        for cu, e in u.items:
            if not self.units[cu].plain_symbol or abs(e) > 9:
                return None
            s = syms[cu] + SUP.get(abs(e), "")
            (pos if e > 0 else neg).append(s)
        out = "·".join(pos) if pos else "1"
        if neg:
            out += "/" + "·".join(neg)
        return out


def model_of(spec) -> UModel:
    m = UModel()
    for d in spec["decls"]:
        if d["d"] == "type":
            m.add_type(d)
        else:
            m.add_unit(d)
    return m


# ---------------------------------------------------------------------------
# generator (model-guided, by construction)

_QUANTA = [Fraction(1, 3), Fraction(5, 100), Fraction(7), Fraction(1, 8), Fraction(1, 1024), Fraction(1),
           Fraction(2, 7)]
_SI = ["MILLI", "KILO", "CENTI", "MEGA", "MICRO", "DECI", "HECTO", "GIGA", "NANO"]


def _enc_any(draw, fr, kinds=("int", "dec", "frac", "float", "decp")):
    return draw(gen.encode(st.just(fr), kinds))


@st.composite
def _pos_factor(draw):
    return gen.pick(draw,
                    (3, st.sampled_from([Fraction(1000), Fraction(60), Fraction(12), Fraction(254, 100),
                                         Fraction(1, 1000), Fraction(1, 8), Fraction(1, 3), Fraction(22, 7),
                                         Fraction(3), Fraction(1024)])),
                    (3, gen.fractions(positive=True)),
                    (1, st.just(Fraction(1))))


class UGen:
    """Stateful helper used inside @st.composite functions."""

    def __init__(self, draw, allow_noref=True, allow_quantum=True, alias=True):
        self.draw = draw
        self.m = UModel()
        self.decls = []
        self.allow_noref = allow_noref
        self.allow_quantum = allow_quantum
        self.alias = alias

    def spec(self):
        return {"decls": self.decls}

    def _emit(self, d):
        self.decls.append(d)
        return self.m.add_type(d) if d["d"] == "type" else self.m.add_unit(d)

    def _quantum(self):
        draw = self.draw
        if not self.allow_quantum or draw(st.integers(0, 4)) != 0:
            return None
        q = gen.pick(draw, (4, st.sampled_from(_QUANTA)), (1, gen.fractions(positive=True)))
        return _enc_any(draw, q, ("int", "dec", "frac"))

    def base_type(self, ref=None):
        draw = self.draw
        if ref is None:
            ref = not (self.allow_noref and draw(st.integers(0, 5)) == 0)
        return self._emit({"d": "type", "kind": "base", "ref": ref,
                           "quantum": self._quantum() if ref else None})

    def derived_type(self):
        """Try to emit a derived type with a fresh, non-zero dimension; None if none found."""
        draw = self.draw
        m = self.m
        for _ in range(4):
            n = gen.pick(draw, (3, st.just(2)), (2, st.just(1)), (1, st.just(3)))
            comps = [draw(st.integers(0, len(m.types) - 1)) for _ in range(n)]
            exps = [draw(st.sampled_from([1, 1, -1, 2, -2, 3, -3])) for _ in range(n)]
            items = list(zip(comps, exps))
            if n == 1 and exps[0] == 1:
                continue
            dims = m.dims_of_def(merge_items(items))
            if not dims or m.type_with_dims(dims) is not None:
                continue
            if not merge_items(items):
                continue
            has_ref = all(m.types[ti].has_ref for ti, _ in items)
            return self._emit({"d": "type", "kind": "derived", "def": [list(x) for x in items],
                               "how": draw(st.sampled_from(["ops", "term"])),
                               "refsym": draw(st.booleans()) if has_ref else False,
                               "quantum": self._quantum() if has_ref else None})
        return None

    def _scaled(self, t: MT):
        draw = self.draw
        m = self.m
        of = draw(st.sampled_from(t.units))
        uq = m.unit_quantum(of)
        if uq is not None:
            # factor must lie on the grid of the defining unit (it is a quantity itself)
            n = gen.pick(draw, (3, st.integers(1, 12)), (2, st.integers(1, 10 ** 6)))
            fv = n * uq
            f = _enc_any(draw, fv, ("int", "dec", "frac"))
        else:
            k = draw(st.integers(0, 9))
            if k == 0 and self.alias:
                f = _enc_any(draw, Fraction(1), ("int", "dec", "frac"))
            elif k == 1:
                f = ["si", draw(st.sampled_from(_SI))]
            elif k == 2 and self.alias and m.units[of].factor != 1:
                # chain multiplying back to scale 1
                f = _enc_any(draw, 1 / m.units[of].factor, ("dec", "frac"))
            else:
                f = _enc_any(draw, draw(_pos_factor()))
        return self._emit({"d": "unit", "t": t.idx, "how": "scaled", "of": of, "f": f,
                           "side": draw(st.sampled_from(["l", "r"]))})

    def _derive(self, t: MT):
        draw = self.draw
        args = []
        for cti, e in t.defn:
            us = self.m.types[cti].units
            if not us:
                return None
            args.append(draw(st.sampled_from(us)))
        # explicit symbol unless the auto symbol is predictable and unused
        return self._emit({"d": "unit", "t": t.idx, "how": "derive", "args": args, "sym": True})

    def _term(self, t: MT):
        draw = self.draw
        m = self.m
        items = []
        if t.kind == "derived":
            for cti, e in t.defn:
                us = m.types[cti].units
                if not us:
                    return None
                if abs(e) >= 2 and draw(st.booleans()):
                    sg = 1 if e > 0 else -1
                    items.append([draw(st.sampled_from(us)), sg])
                    items.append([draw(st.sampled_from(us)), e - sg])
                else:
                    items.append([draw(st.sampled_from(us)), e])
        else:
            items.append([draw(st.sampled_from(t.units)) if t.units else None, 1])
            if items[0][0] is None:
                return None
            if draw(st.integers(0, 2)) == 0:
                # the everyday spelling: Term(((60, 1), (SECOND, 1))) with a plain int
                n = draw(st.sampled_from([60, 12, 5, 3, 7, 1000, 24]))
                return self._emit({"d": "unit", "t": t.idx, "how": "term",
                                   "items": [[["int", str(n)], 1], [items[0][0], 1]]})
        # optional numeric items
        for _ in range(draw(st.integers(0, 2))):
            fv = draw(_pos_factor())
            items.append([_enc_any(draw, fv, ("int", "dec", "frac")), draw(st.sampled_from([1, 1, -1, 2]))])
        # optional cancelling pair of convertible units
        if draw(st.integers(0, 3)) == 0:
            lin = [x for x in m.types if x.has_ref and x.units]
            if lin:
                x = draw(st.sampled_from(lin))
                items.append([draw(st.sampled_from(x.units)), 1])
                items.append([draw(st.sampled_from(x.units)), -1])
        items = draw(st.permutations(items))
        # validity: without reference unit the base-only unit must already be declared
        factor, bmap = Fraction(1), {}
        for el, e in items:
            if isinstance(el, int):
                factor *= m.units[el].factor ** e
                bmap = bm_mul(bmap, m.units[el].bmap, e)
        if not t.has_ref:
            if not any(u.bmap == bmap and u.factor == 1 for u in m.units if u.t == t.idx):
                return None
        if t.quantum is not None:
            pass
        return self._emit({"d": "unit", "t": t.idx, "how": "term", "items": [list(i) for i in items]})

    def unit(self):
        draw = self.draw
        m = self.m
        t = m.types[draw(st.integers(0, len(m.types) - 1))]
        if t.kind == "base" and not t.has_ref:
            return self._emit({"d": "unit", "t": t.idx, "how": "bare"})
        opts = []
        if t.units:
            opts += ["scaled", "scaled"]
        if t.kind == "derived":
            opts += ["derive", "term"]
        elif t.units:
            opts += ["term"]
        if not opts:
            return None
        how = draw(st.sampled_from(opts))
        if how == "scaled":
            return self._scaled(t)
        if how == "derive":
            return self._derive(t)
        return self._term(t)

    def price_like(self):
        """A 'money per quantity' shaped universe: a base type M without reference unit (several bare units),
        a linear base type X with scaled units, a derived type P = M/X | M*X | M/X**2 with units derived
        for several (m, x) combinations - equal-scale sibling units that are not convertible."""
        draw = self.draw
        M = self._emit({"d": "type", "kind": "base", "ref": False, "quantum": None})
        ms = [self._emit({"d": "unit", "t": M.idx, "how": "bare"}).uid for _ in range(draw(st.integers(2, 3)))]
        X = self._emit({"d": "type", "kind": "base", "ref": True, "quantum": None})
        xs = [X.ref_uid]
        for f in draw(st.lists(st.sampled_from([1000, 8, 60]), min_size=1, max_size=2, unique=True)):
            xs.append(self._emit({"d": "unit", "t": X.idx, "how": "scaled", "of": X.ref_uid,
                                  "f": ["int", str(f)], "side": "l"}).uid)
        shape = draw(st.sampled_from([[[M.idx, 1], [X.idx, -1]], [[M.idx, 1], [X.idx, 1]], [[M.idx, 1], [X.idx, -2]]]))
        P = self._emit({"d": "type", "kind": "derived", "def": shape, "how": draw(st.sampled_from(["ops", "term"])),
                        "refsym": False, "quantum": None})
        combos = [(a, b) for a in ms for b in xs]
        for a, b in draw(st.lists(st.sampled_from(combos), min_size=2, max_size=5, unique=True)):
            self._emit({"d": "unit", "t": P.idx, "how": "derive", "args": [a, b], "sym": True})
        return M, X, P

    def grow(self, n_base, n_steps):
        for _ in range(n_base):
            self.base_type()
        # make sure base types without reference unit have some units
        for t in list(self.m.types):
            if not t.has_ref:
                for _ in range(self.draw(st.integers(1, 3))):
                    self._emit({"d": "unit", "t": t.idx, "how": "bare"})
        for _ in range(n_steps):
            if self.draw(st.integers(0, 3)) == 0:
                self.derived_type()
            else:
                self.unit()


@st.composite
def universes(draw, max_base=3, max_steps=12, allow_noref=True, allow_quantum=True, alias=True):
    g = UGen(draw, allow_noref, allow_quantum, alias)
    g.grow(draw(st.integers(1, max_base)), draw(st.integers(2, max_steps)))
    return g.spec()


# ---------------------------------------------------------------------------
# builder: execute a spec against the real library

class Built:
    def __init__(self):
        self.types = []      # QuantityMeta classes (or None if the declaration failed)
        self.units = []      # Unit objects (or None)
        self.syms = []       # symbols by uid
        self.errors = []     # (decl index, exception)
        self.prefix = ""


def build(spec, stop_on_error=True) -> Built:
    from quantity import Quantity, QuantityMeta
    from quantity.term import Term
    import quantity.si_prefixes as sip

    b = Built()
    b.prefix = f"z{next(_counter)}"
    m = UModel()
    nsym = itertools.count()

    def newsym():
        return f"{b.prefix}u{next(nsym)}"

    for di, d in enumerate(spec["decls"]):
        try:
            if d["d"] == "type":
                name = f"{b.prefix.upper()}T{len(b.types)}"
                mt = m.add_type(d)
                kw = {}
                if d.get("quantum"):
                    kw["quantum"] = mknum(d["quantum"])
                if d["kind"] == "base":
                    if d["ref"]:
                        sym = newsym()
                        kw.update(ref_unit_symbol=sym, ref_unit_name=f"ref of {name}")
                else:
                    items = [(b.types[ti], e) for ti, e in d["def"]]
                    if d["how"] == "term":
                        defn = Term(items)
                    else:
                        defn = None
                        for c, e in items:
                            if defn is None:
                                defn = c if e == 1 and len(items) > 1 else c ** e
                            elif e == 1:
                                defn = defn * c
                            elif e == -1:
                                defn = defn / c
                            elif e > 0:
                                defn = defn * (c ** e)
                            else:
                                defn = defn / (c ** -e)
                    kw["define_as"] = defn
                    if mt.has_ref and d.get("refsym"):
                        sym = newsym()
                        kw.update(ref_unit_symbol=sym, ref_unit_name=f"ref of {name}")
                cls = QuantityMeta(name, (Quantity,), {}, **kw)
                b.types.append(cls)
                if mt.has_ref:
                    b.units.append(cls.ref_unit)
                    b.syms.append(cls.ref_unit.symbol if cls.ref_unit is not None else None)
            else:
                cls = b.types[d["t"]]
                how = d["how"]
                m.add_unit(d)
                sym = newsym()
                if how == "bare":
                    u = cls.new_unit(sym, f"unit {sym}")
                elif how == "scaled":
                    of = b.units[d["of"]]
                    f = d["f"]
                    fo = getattr(sip, f[1]) if f[0] == "si" else mknum(f)
                    qty = fo * of if d["side"] == "l" else of * fo
                    u = cls.new_unit(sym, f"unit {sym}", qty)
                elif how == "derive":
                    args = [b.units[a] for a in d["args"]]
                    if d.get("sym"):
                        u = cls.derive_unit_from(*args, symbol=sym, name=f"unit {sym}")
                    else:
                        u = cls.derive_unit_from(*args)
                else:
                    items = [((b.units[el] if isinstance(el, int) else mknum(el)), e) for el, e in d["items"]]
                    u = cls.new_unit(sym, f"unit {sym}", Term(items))
                b.units.append(u)
                b.syms.append(u.symbol)
        except Exception as exc:  # noqa: BLE001
            b.errors.append((di, exc))
            if stop_on_error:
                return b
            if d["d"] == "type":
                b.types.append(None)
                if m.types[-1].has_ref:
                    b.units.append(None)
                    b.syms.append(None)
            else:
                b.units.append(None)
                b.syms.append(None)
    return b


# ---------------------------------------------------------------------------
# C01: conversions inside generated universes

@st.composite
def gen_conv_case(draw):
    g = UGen(draw, allow_noref=False, allow_quantum=True)
    g.grow(draw(st.integers(1, 2)), draw(st.integers(3, 10)))
    m = g.m
    lin = [t for t in m.types if t.has_ref and len(t.units) >= 1]
    convs = []
    for _ in range(draw(st.integers(2, 6))):
        t = draw(st.sampled_from(lin))
        u = draw(st.sampled_from(t.units))
        v = draw(st.sampled_from(t.units))
        w = draw(st.sampled_from(t.units))
        uq = m.unit_quantum(u)
        if uq is not None:
            amt = draw(st.integers(-10 ** 6, 10 ** 6)) * uq
        else:
            amt = draw(gen.fractions())
        convs.append([u, v, w, draw(gen.encode(st.just(amt), ("int", "dec", "decp", "frac")))])
    cross = None
    if len(lin) >= 2:
        t1, t2 = draw(st.permutations(lin))[:2]
        cross = [draw(st.sampled_from(t1.units)), draw(st.sampled_from(t2.units))]
    return {"k": "u_conv", "uni": g.spec(), "convs": convs, "cross": cross}


def run_conv_case(case, ctx, check_convert):
    from quantity import IncompatibleUnitsError, Quantity
    spec = case["uni"]
    m = model_of(spec)
    b = build(spec)
    ctx.label("universes")
    if b.errors:
        di, exc = b.errors[0]
        ctx.viol(f"u_decl/{spec['decls'][di]['d']}/{spec['decls'][di].get('how', spec['decls'][di].get('kind'))}/"
                 f"{type(exc).__name__}",
                 f"valid declaration #{di} {spec['decls'][di]} raised {type(exc).__name__}: {exc}")
        return
    depth_seen = False
    for u, v, w, amt in case["convs"]:
        U, V, W = b.units[u], b.units[v], b.units[w]
        q = Quantity(mknum(amt), U)
        Su, Sv, Sw = m.scale(u), m.scale(v), m.scale(w)
        if U is not V and Su != Sv:
            ctx.nontrivial()
        ctx.label(f"how/{m.units[u].how}->{m.units[v].how}")
        ctx.tick()
        direct = check_convert(ctx, q, V, Su, Sv, m.unit_quantum(v), f"{q!r}.convert({V}) [{m.units[u].how}->"
                               f"{m.units[v].how}]", "u_pair")
        mid = check_convert(ctx, q, W, Su, Sw, m.unit_quantum(w), f"{q!r}.convert({W})", "u_pair")
        if mid is not None and direct is not None:
            via = check_convert(ctx, mid, V, Sw, Sv, m.unit_quantum(v), f"{mid!r}.convert({V})", "u_pair")
            if via is not None and F(via.amount) != F(direct.amount):
                ctx.viol("u_triple/via", f"{q!r} via {W} to {V} = {via!r}, direct = {direct!r}")
    if case.get("cross"):
        a, c = case["cross"]
        q = Quantity(1, b.units[a])
        try:
            r = q.convert(b.units[c])
        except IncompatibleUnitsError:
            pass
        except Exception as exc:  # noqa: BLE001
            ctx.viol(f"u_cross/{type(exc).__name__}", f"{q!r}.convert({b.units[c]}) raised {type(exc).__name__}")
        else:
            ctx.viol("u_cross/returned", f"{q!r}.convert({b.units[c]}) returned {r!r}")


# ---------------------------------------------------------------------------
# C02: products / quotients / powers inside generated universes

def _good_type_pairs(m: UModel):
    out = []
    for t1 in m.types:
        if not t1.units:
            continue
        for t2 in m.types:
            if not t2.units:
                continue
            for op, sg in (("*", 1), ("/", -1)):
                d = bm_mul(t1.dims, t2.dims, sg)
                if not d or m.type_with_dims(d) is not None:
                    out.append((t1.idx, op, t2.idx))
    return out


def _sibling_op(draw, m: UModel, o):
    """The same operation with one operand replaced by another unit of the same type, preferably one that
    compares equal to it (same scale) - equal-but-distinct units must not share cached results."""
    if draw(st.integers(0, 2)) != 0:
        return None
    key = "u" if "v" not in o or draw(st.booleans()) else "v"
    mu = m.units[o[key]]
    sibs = [x for x in m.types[mu.t].units if x != mu.uid]
    if not sibs:
        return None
    same = [x for x in sibs if m.units[x].factor == mu.factor]
    pick = draw(st.sampled_from(same)) if same and draw(st.integers(0, 3)) else draw(st.sampled_from(sibs))
    o2 = dict(o)
    o2[key] = pick
    return o2


@st.composite
def gen_ops_case(draw, max_base=3, max_steps=12):
    g = UGen(draw, allow_noref=True, allow_quantum=True)
    if draw(st.integers(0, 4)) == 0:
        g.price_like()
        for _ in range(draw(st.integers(0, 4))):
            g.unit()
    else:
        g.grow(draw(st.integers(1, max_base)), draw(st.integers(3, max_steps)))
    m = g.m
    have = [t for t in m.types if t.units]
    good = _good_type_pairs(m) + [(t1.idx, op, t2.idx) for t1 in m.types for t2 in m.types for op in "*/"
                                  if t1.units and t2.units and not t1.has_ref and t1.kind == "derived"
                                  and t2.has_ref]
    kinds = ("int", "dec", "decp", "frac")
    ops = []
    for _ in range(draw(st.integers(3, 8))):
        sel = draw(st.integers(0, 9))
        if sel <= 1:
            t = draw(st.sampled_from(have))
            ops.append({"op": "**", "shape": draw(st.sampled_from(["u", "q"])),
                        "u": draw(st.sampled_from(t.units)), "n": draw(st.integers(-3, 3)),
                        "a": draw(gen.encode(gen.fractions(allow_zero=False), kinds))})
            continue
        if sel <= 6 and good:
            t1, op, t2 = draw(st.sampled_from(good))
            u = draw(st.sampled_from(m.types[t1].units))
            v = draw(st.sampled_from(m.types[t2].units))
        else:
            u = draw(st.sampled_from(draw(st.sampled_from(have)).units))
            v = draw(st.sampled_from(draw(st.sampled_from(have)).units))
            op = draw(st.sampled_from(["*", "/"]))
        ops.append({"op": op, "shape": draw(st.sampled_from(["uu", "qu", "uq", "qq", "qq"])), "u": u, "v": v,
                    "a": draw(gen.encode(gen.fractions(allow_zero=False), kinds)),
                    "b": draw(gen.encode(gen.fractions(allow_zero=False), kinds))})
        sib = _sibling_op(draw, m, ops[-1])
        if sib is not None:
            ops.append(sib)
    # evaluate everything once more, and each pair also with the other operator in between
    extra = []
    for o in ops:
        if o["op"] in ("*", "/"):
            extra.append(dict(o, op="/" if o["op"] == "*" else "*"))
    ops = ops + extra + [dict(o) for o in ops]
    return {"k": "u_ops", "uni": g.spec(), "ops": ops}


def expectation(m: UModel, factor, bmap):
    r = m.result(factor, bmap)
    if r[0] == "number":
        return {"kind": "number", "value": factor}
    if r[0] == "type":
        return {"kind": "typed", "t": r[1], "ref": factor}
    if r[0] == "units":
        return {"kind": "typed", "t": m.units[r[1][0]].t, "ref": factor, "cands": r[1]}
    if r[0] == "undefined":
        return {"kind": "undefined"}
    return None


def run_ops_case(case, ctx, judge):
    from quantity import Quantity
    spec = case["uni"]
    m = model_of(spec)
    b = build(spec)
    ctx.label("universes")
    if b.errors:
        di, exc = b.errors[0]
        d = spec["decls"][di]
        ctx.viol(f"u_decl/{d['d']}/{d.get('how', d.get('kind'))}/{type(exc).__name__}",
                 f"valid declaration #{di} {d} raised {type(exc).__name__}: {exc}")
        return
    sym2uid = {s: i for i, s in enumerate(b.syms)}

    def scale_of(ru):
        uid = sym2uid.get(ru.symbol)
        return None if uid is None else m.units[uid].factor

    def quantum_of(ru):
        uid = sym2uid.get(ru.symbol)
        return None if uid is None else m.unit_quantum(uid)

    def cls_of(ti):
        return b.types[ti]

    for o in case["ops"]:
        op, shape = o["op"], o["shape"]
        mu = m.units[o["u"]]
        U = b.units[o["u"]]
        qa = Quantity(mknum(o["a"]), U)
        fa = mu.factor * (F(qa.amount) if shape[0] == "q" else 1)
        left = qa if shape[0] == "q" else U
        if op == "**":
            n = o["n"]
            if fa == 0 and n < 0:
                continue
            if n == 0:
                exp = {"kind": "number", "value": Fraction(1)}
            else:
                exp = expectation(m, fa ** n, bm_pow(mu.bmap, n))
            if exp is None:
                ctx.label("ambiguous")
                continue
            ctx.tick()
            ctx.nontrivial()
            ctx.label(f"outcome/{exp['kind']}")
            judge(ctx, f"u**/{shape}", f"{left!r} ** {n} [{mu.how}]", lambda l=left, n=n: l ** n, exp,
                  scale_of, quantum_of, cls_of)
            continue
        mv = m.units[o["v"]]
        V = b.units[o["v"]]
        qb = Quantity(mknum(o["b"]), V)
        fb = mv.factor * (F(qb.amount) if shape[1] == "q" else 1)
        right = qb if shape[1] == "q" else V
        if op == "/" and fb == 0:
            continue
        if op == "/" and mu.t == mv.t and not m.types[mu.t].has_ref and o["u"] != o["v"]:
            ctx.label("excluded/noref_div")
            continue
        if op == "*":
            exp = expectation(m, fa * fb, bm_mul(mu.bmap, mv.bmap, 1))
        else:
            exp = expectation(m, fa / fb, bm_mul(mu.bmap, mv.bmap, -1))
        if exp is None:
            ctx.label("ambiguous")
            continue
        ctx.tick()
        ctx.label(f"outcome/{exp['kind']}")
        ctx.label(f"how/{mu.how}.{mv.how}")
        if mu.factor != 1 or mv.factor != 1 or exp["kind"] != "typed":
            ctx.nontrivial()
        fn = (lambda l=left, r=right: l * r) if op == "*" else (lambda l=left, r=right: l / r)
        judge(ctx, f"u{op}/{shape}", f"{left!r} {op} {right!r} [{mu.how},{mv.how}]", fn, exp,
              scale_of, quantum_of, cls_of, tuple_ok=(shape == "uu"))


# ---------------------------------------------------------------------------
# C17: the predefined catalogue as a preloaded model, dependencies, schedules

def catalogue_model() -> UModel:
    """UModel preloaded with the predefined catalogue (numbering of refdata.CAT_TYPES / catalogue_units)."""
    m = UModel()
    tidx = {t: i for i, t in enumerate(refdata.CAT_TYPES)}
    for t in refdata.CAT_TYPES:
        idx = len(m.types)
        if t in refdata.CAT_DEFN:
            defn = [(tidx[c], e) for c, e in refdata.CAT_DEFN[t]]
            dims = {tidx[b]: e for b, e in refdata.DIMS[t].items()}
            mt = MT(idx, "derived", dims, True, refdata.QUANTUM.get(t), defn)
        else:
            mt = MT(idx, "base", {idx: 1}, t != "Temperature", refdata.QUANTUM.get(t), None)
        m.types.append(mt)
    units = refdata.catalogue_units()
    sym2uid = {s: i for i, (s, _) in enumerate(units)}
    for s, t in units:
        ti = tidx[t]
        mt = m.types[ti]
        if t == "Temperature":
            u = m._new_unit(ti, Fraction(1), None, True, "pre")
        else:
            bmap = {sym2uid[refdata.REF_SYMBOL[b]]: e for b, e in refdata.DIMS[t].items()}
            isref = s == refdata.REF_SYMBOL[t]
            u = m._new_unit(ti, refdata.UNITS[s][1], bmap, isref and t not in refdata.CAT_DEFN, "ref" if isref else "pre")
            if isref:
                mt.ref_uid = u.uid
        u.plain_symbol = s.isalnum()
    return m


def decl_deps(decls, m_before_types, m_before_units):
    """For each declaration k: set of declarations it depends on (by position)."""
    tnum, unum = {}, {}
    nt, nu = m_before_types, m_before_units
    for k, d in enumerate(decls):
        if d["d"] == "type":
            tnum[nt] = k
            nt += 1
            if d["_has_ref"]:
                unum[nu] = k
                nu += 1
        else:
            unum[nu] = k
            nu += 1
    deps = []
    for k, d in enumerate(decls):
        s = set()
        if d["d"] == "type":
            for ti, _ in d.get("def", []):
                if ti in tnum:
                    s.add(tnum[ti])
        else:
            if d["t"] in tnum:
                s.add(tnum[d["t"]])
            refs = []
            if d["how"] == "scaled":
                refs = [d["of"]]
            elif d["how"] == "derive":
                refs = list(d["args"])
            elif d["how"] == "term":
                refs = [el for el, _ in d["items"] if isinstance(el, int)]
            for r in refs:
                if r in unum:
                    s.add(unum[r])
            if d["how"] == "term" and d["t"] in tnum and not decls[tnum[d["t"]]]["_has_ref"]:
                # in a type without reference unit a term only defines a unit if the plain product of
                # base units has been declared before: keep all earlier units of that type in front
                for k2 in range(k):
                    d2 = decls[k2]
                    if d2["d"] == "unit" and d2["t"] == d["t"]:
                        s.add(k2)
        deps.append(s)
    return deps, tnum, unum


@st.composite
def gen_program(draw, catalogue=None):
    """Program = declarations (optionally on top of the predefined catalogue) + operations + 2 schedules."""
    if catalogue is None:
        catalogue = draw(st.booleans())
    g = UGen(draw, allow_noref=not catalogue and draw(st.booleans()), allow_quantum=True)
    if catalogue:
        g.m = catalogue_model()
    nt0, nu0 = len(g.m.types), len(g.m.units)
    if catalogue:
        # favour derived types over catalogue types (Jerk = Acceleration / Duration) and units of catalogue types
        for _ in range(draw(st.integers(2, 8))):
            sel = draw(st.integers(0, 5))
            if sel == 0:
                g.base_type(ref=True)
            elif sel <= 2:
                g.derived_type()
            else:
                g.unit()
    elif draw(st.integers(0, 3)) == 0:
        g.price_like()
        for _ in range(draw(st.integers(0, 3))):
            g.unit()
    else:
        g.grow(draw(st.integers(1, 3)), draw(st.integers(3, 10)))
    m = g.m
    decls = g.decls
    k2 = 0
    for d in decls:
        if d["d"] == "type":
            d["_has_ref"] = m.types[nt0 + k2].has_ref
            k2 += 1
    deps, tnum, unum = decl_deps(decls, nt0, nu0)
    # operations: biased to results owned by generated types
    new_types = [t for t in m.types[nt0:]]
    have = [t for t in m.types if t.units]
    good = []
    for t in new_types:
        if t.kind == "derived" and t.has_ref:
            for t1 in have:
                for t2 in have:
                    for op, sg in (("*", 1), ("/", -1)):
                        if bm_mul(t1.dims, t2.dims, sg) == t.dims:
                            good.append((t1.idx, op, t2.idx))
    for t1 in have:
        if t1.kind == "derived" and not t1.has_ref:
            for t2 in have:
                if t2.has_ref:
                    good += [(t1.idx, "*", t2.idx), (t1.idx, "/", t2.idx), (t2.idx, "*", t1.idx)]
    kinds = ("int", "dec", "frac")
    ops = []
    for _ in range(draw(st.integers(2, 6))):
        sel = draw(st.integers(0, 9))
        if sel <= 5 and good:
            t1, op, t2 = draw(st.sampled_from(good))
            u, v = draw(st.sampled_from(m.types[t1].units)), draw(st.sampled_from(m.types[t2].units))
        elif sel <= 7 and new_types and any(t.units for t in new_types):
            u = draw(st.sampled_from(draw(st.sampled_from([t for t in new_types if t.units])).units))
            v = draw(st.sampled_from(draw(st.sampled_from(have)).units))
            op = draw(st.sampled_from(["*", "/"]))
            if draw(st.booleans()):
                u, v = v, u
        else:
            u = draw(st.sampled_from(draw(st.sampled_from(have)).units))
            v = draw(st.sampled_from(draw(st.sampled_from(have)).units))
            op = draw(st.sampled_from(["*", "/", "**"]))
        o = {"op": op, "u": u, "a": draw(gen.encode(gen.fractions(allow_zero=False), kinds))}
        if op == "**":
            o.update(shape=draw(st.sampled_from(["u", "q"])), n=draw(st.sampled_from([2, 3, -1, -2, 1])))
        else:
            o.update(shape=draw(st.sampled_from(["uu", "qu", "uq", "qq", "qq"])), v=v,
                     b=draw(gen.encode(gen.fractions(allow_zero=False), kinds)))
        ops.append(o)
        sib = _sibling_op(draw, m, o)
        if sib is not None:
            ops.append(sib)
    # what each op needs before it can be written down: its operand units
    def op_needs(o):
        need = set()
        for uid in [o["u"]] + ([o["v"]] if "v" in o else []):
            if uid in unum:
                need.add(unum[uid])
        return need

    def closure(s):
        out = set()
        todo = list(s)
        while todo:
            k = todo.pop()
            if k not in out:
                out.add(k)
                todo.extend(deps[k])
        return out

    schedules = []
    for _ in range(2):
        # random topological order of the declarations
        remaining = set(range(len(decls)))
        done = []
        order = []
        while remaining:
            ready = sorted(k for k in remaining if deps[k] <= set(done))
            k = draw(st.sampled_from(ready))
            order.append(k)
            done.append(k)
            remaining.discard(k)
        events = [{"e": "decl", "i": k} for k in order]
        # insert operation evaluations at random positions after their operands exist
        for j, o in enumerate(ops):
            need = closure(op_needs(o))
            for _rep in range(draw(st.integers(1, 2))):
                lo = 0
                for pos, ev in enumerate(events):
                    if ev["e"] == "decl" and ev["i"] in need:
                        lo = pos + 1
                pos = draw(st.integers(lo, len(events)))
                events.insert(pos, {"e": "op", "i": j})
        events += [{"e": "op", "i": j} for j in range(len(ops))]
        schedules.append(events)
    return {"k": "prog", "program": {"catalogue": bool(catalogue), "decls": decls, "ops": ops},
            "schedules": schedules}


# ---------------------------------------------------------------------------
# C03 / C04 / C19: quantities of one generated linear type in independently drawn units

@st.composite
def gen_linear_case(draw, n_max=4):
    """Universe + 2..n quantities of one linear type whose reference values are equal, close or random."""
    g = UGen(draw, allow_noref=False, allow_quantum=True)
    g.grow(draw(st.integers(1, 2)), draw(st.integers(3, 9)))
    m = g.m
    t = draw(st.sampled_from([t for t in m.types if t.has_ref and t.units]))
    n = draw(st.integers(2, n_max))
    Q = t.quantum
    if Q is not None:
        base = draw(st.integers(-10 ** 5, 10 ** 5))
        refs = [(base + gen.pick(draw, (4, st.just(0)), (3, st.sampled_from([-1, 1])), (3, st.integers(-99, 99)))) * Q
                for _ in range(n)]
    else:
        b = draw(gen.fractions())
        refs = []
        for _ in range(n):
            sel = draw(st.integers(0, 9))
            if sel <= 3:
                refs.append(b)
            elif sel <= 6:
                eps = Fraction(draw(st.sampled_from([-1, 1])), 10 ** draw(st.integers(1, 30)))
                refs.append(b * (1 + eps) if b != 0 else eps)
            else:
                refs.append(draw(gen.fractions()))
    picks = []
    for r in refs:
        u = draw(st.sampled_from(t.units))
        amt = r / m.units[u].factor
        kind = draw(st.sampled_from(["dec", "frac", "decp"])) if is_dec_repr(amt) and len(str(amt.denominator)) < 150 \
            else "frac"
        picks.append([u, gen.encode_as(amt, kind, draw)])
    return {"k": "u_lin", "uni": g.spec(), "picks": picks,
            "kk": draw(gen.encode(gen.fractions(), ("int", "dec", "frac")))}


def build_linear_case(case, ctx):
    """-> (quantities, reference values, model units, quantized?) or None if a valid declaration failed."""
    from quantity import Quantity
    spec = case["uni"]
    m = model_of(spec)
    b = build(spec)
    if b.errors:
        di, exc = b.errors[0]
        d = spec["decls"][di]
        ctx.viol(f"u_decl/{d['d']}/{d.get('how', d.get('kind'))}/{type(exc).__name__}",
                 f"valid declaration #{di} {d} raised {type(exc).__name__}: {exc}")
        return None
    qs = [Quantity(mknum(a), b.units[u]) for u, a in case["picks"]]
    refs = [F(q.amount) * m.units[u].factor for q, (u, _) in zip(qs, case["picks"])]
    mus = [m.units[u] for u, _ in case["picks"]]
    return qs, refs, mus, m.types[mus[0].t].quantum is not None

import sys
from . import env  # noqa: F401


def _main() -> int:
    if len(sys.argv) < 2:
        print("usage: check <ID> [--tier quick|thorough] [--replay file]", file=sys.stderr)
        return 2
    pid = sys.argv[1].upper()
    import importlib
    try:
        importlib.import_module(f"vq.props.{pid.lower()}")
    except ModuleNotFoundError as exc:
        if exc.name == f"vq.props.{pid.lower()}":
            print(f"HARNESS-ERROR: no check for {pid}", file=sys.stderr)
            return 2
        raise
    from . import runner
    return runner.main(f"vq.props.{pid.lower()}", sys.argv[2:])


if __name__ == "__main__":
    try:
        rc = _main()
    except SystemExit:
        raise
    except BaseException:  # noqa: BLE001
        import traceback
        traceback.print_exc()
        print("HARNESS-ERROR: uncaught exception in the harness", file=sys.stderr)
        rc = 2
    sys.exit(rc)

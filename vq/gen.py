"""Hypothesis strategies shared by the property modules.

Everything produces plain JSON-able data (numbers as `enc` lists, see
model.py); all randomness comes from Hypothesis.
"""
from fractions import Fraction

from hypothesis import strategies as st

from .model import MODES, dec_places, fs, is_dec_repr

# ---------------------------------------------------------------------------
# rational values (as Fraction)

_small = st.integers(-20, 20)
_mid = st.integers(-10 ** 6, 10 ** 6)


@st.composite
def _bigint(draw):
    e = draw(st.integers(0, 30))
    return draw(st.integers(-10 ** e, 10 ** e))


ints = st.one_of(_small, _mid, _bigint())


@st.composite
def terminating(draw, max_places=12):
    """n / 10^k and n / (2^a 5^b)."""
    n = draw(ints)
    if draw(st.booleans()):
        return Fraction(n, 10 ** draw(st.integers(0, max_places)))
    return Fraction(n, 2 ** draw(st.integers(0, 12)) * 5 ** draw(st.integers(0, 6)))


@st.composite
def nonterminating(draw):
    n = draw(ints)
    d = draw(st.one_of(st.sampled_from([3, 6, 7, 9, 11, 12, 13, 30, 360, 997]),
                       st.integers(1, 10 ** 6)))
    return Fraction(n, d)


def fractions(allow_zero=True, positive=False):
    s = st.one_of(ints.map(Fraction), terminating(), terminating(), nonterminating())
    if positive:
        s = s.map(abs)
        allow_zero = False
    if not allow_zero:
        s = s.map(lambda f: f if f != 0 else Fraction(1))
    return s


# ---------------------------------------------------------------------------
# representations

def _dec_literal(fr: Fraction, draw) -> str:
    """A decimal text literal equal to the terminating fraction fr."""
    p = dec_places(fr)
    v = fr * 10 ** p
    assert v.denominator == 1
    v = v.numerator
    sign = "-" if v < 0 else draw(st.sampled_from(["", "", "+"]))
    digits = str(abs(v)).rjust(p + 1, "0")
    style = draw(st.integers(0, 3))
    if style == 0 or p == 0 and style == 1:
        body = digits[:-p] + "." + digits[-p:] if p else digits
        return sign + body
    if style == 1:
        # trailing zeros
        body = digits[:-p] + "." + digits[-p:] + "0" * draw(st.integers(1, 3))
        return sign + body
    # exponent notation: v * 10^-p
    shift = draw(st.integers(-3, 3))
    e = -p + shift
    # digits with the point moved `shift` places to the left
    if shift > 0:
        ds = str(abs(v)).rjust(shift + 1, "0")
        body = ds[:-shift] + "." + ds[-shift:]
    elif shift < 0:
        body = str(abs(v)) + "0" * (-shift)
    else:
        body = str(abs(v))
    return f"{sign}{body}{draw(st.sampled_from(['e', 'E']))}{e}"


@st.composite
def encode(draw, fr_strategy, kinds=("int", "dec", "decp", "frac")):
    """Draw a value and one representation (among `kinds`) valid for it."""
    fr = draw(fr_strategy)
    ok = []
    for k in kinds:
        if k == "int" and fr.denominator == 1:
            ok.append(k)
        elif k in ("dec", "decp", "sdec") and is_dec_repr(fr):
            ok.append(k)
        elif k in ("frac", "str"):
            ok.append(k)
        elif k == "float":
            try:
                if Fraction(*float(fr).as_integer_ratio()) == fr:
                    ok.append(k)
            except OverflowError:
                pass
    k = draw(st.sampled_from(ok)) if ok else "frac"
    return encode_as(fr, k, draw)


def encode_as(fr: Fraction, k: str, draw=None):
    if k == "int":
        return ["int", str(fr.numerator)]
    if k == "dec":
        return ["dec", fs(fr)]
    if k == "decp":
        extra = draw(st.integers(1, 4)) if draw else 2
        return ["decp", fs(fr), dec_places(fr) + extra]
    if k == "frac":
        return ["frac", fs(fr)]
    if k == "float":
        return ["float", float(fr).hex()]
    if k == "sdec":
        return ["sdec", _dec_literal(fr, draw) if draw else str(fr.numerator)]
    if k == "str":
        if is_dec_repr(fr) and (draw is None or draw(st.booleans())):
            lit = _dec_literal(fr, draw) if draw else str(fr.numerator)
        else:
            lit = f"{fr.numerator}/{fr.denominator}"
        return ["str", lit]
    raise ValueError(k)


@st.composite
def floats_enc(draw):
    f = draw(st.one_of(
        st.floats(allow_nan=False, allow_infinity=False),
        st.floats(-1e6, 1e6, allow_nan=False),
        st.sampled_from([5e-324, 2.2250738585072014e-308, 1.7976931348623157e308,
                         0.1, 0.3, 1e22, 1e23, -0.0, 2.5, 1 / 3])))
    return ["float", float(f).hex()]


modes = st.sampled_from(MODES)


def pick(draw, *weighted):
    """Draw from one of several strategies with explicit integer weights.

    (st.one_of flattens nested one_of's, which silently changes the mix.)
    """
    total = sum(w for w, _ in weighted)
    i = draw(st.integers(0, total - 1))
    for w, s in weighted:
        if i < w:
            return draw(s)
        i -= w
    raise AssertionError


@st.composite
def near_tie(draw, quantum: Fraction, mode=None):
    """A value (k + 1/2 + eps) * quantum, eps in {0, +-tiny}, or k*quantum."""
    k = draw(st.one_of(st.integers(-12, 12), st.integers(-10 ** 6, 10 ** 6)))
    if mode == "ROUND_05UP" and draw(st.booleans()):
        k = k * 5
    shape = draw(st.integers(0, 9))
    off = Fraction(1, 2)
    eps = Fraction(0)
    if shape <= 4:
        pass
    elif shape <= 6:
        eps = Fraction(draw(st.sampled_from([-1, 1])), 10 ** draw(st.integers(9, 40)))
    elif shape == 7:
        eps = Fraction(draw(st.sampled_from([-1, 1])), 10 ** draw(st.integers(1, 8)))
    elif shape == 8:
        off = Fraction(0)
    else:
        eps = Fraction(draw(st.integers(1, 999)), 1000)
        off = Fraction(0)
    return (k + off + eps) * quantum

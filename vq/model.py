"""Independent oracle pieces: exact numbers, the eight rounding modes.

Nothing here imports `quantity`; `decimalfp` is used only to *construct*
inputs for the code under test (mknum), never to compute expected values.
"""
from fractions import Fraction
import decimal as _stddec
import math

MODES = ["ROUND_05UP", "ROUND_CEILING", "ROUND_DOWN", "ROUND_FLOOR",
         "ROUND_HALF_DOWN", "ROUND_HALF_EVEN", "ROUND_HALF_UP", "ROUND_UP"]
HALF_MODES = {"ROUND_HALF_DOWN", "ROUND_HALF_EVEN", "ROUND_HALF_UP"}


def ref_round(x: Fraction, mode: str) -> int:
    """Round the rational x to an integer as the decimal module defines."""
    x = Fraction(x)
    f = x.numerator // x.denominator          # floor
    if x == f:
        return f
    r = x - f                                 # 0 < r < 1
    pos = x > 0
    toward = f if pos else f + 1
    away = f + 1 if pos else f
    if mode == "ROUND_DOWN":
        return toward
    if mode == "ROUND_UP":
        return away
    if mode == "ROUND_FLOOR":
        return f
    if mode == "ROUND_CEILING":
        return f + 1
    if mode == "ROUND_05UP":
        return away if abs(toward) % 10 in (0, 5) else toward
    if mode in HALF_MODES:
        if r > Fraction(1, 2):
            return f + 1
        if r < Fraction(1, 2):
            return f
        if mode == "ROUND_HALF_UP":
            return away
        if mode == "ROUND_HALF_DOWN":
            return toward
        return f if f % 2 == 0 else f + 1
    raise ValueError(mode)


def round_to(x: Fraction, quantum: Fraction, mode: str) -> Fraction:
    """Nearest integer multiple of quantum (> 0) to x under mode."""
    return ref_round(Fraction(x) / Fraction(quantum), mode) * Fraction(quantum)


_SELFTEST_DONE = False


def selftest_rounding() -> None:
    """Cross-check ref_round against decimal.Decimal.quantize (stdlib)."""
    global _SELFTEST_DONE
    if _SELFTEST_DONE:
        return
    one = _stddec.Decimal(1)
    with _stddec.localcontext() as ctx:
        ctx.prec = 60
        for mode in MODES:
            for n in range(-130, 131):
                for d in (1, 2, 4, 5, 8, 10, 20, 40):
                    x = Fraction(n, d)
                    exp = int((_stddec.Decimal(n) / _stddec.Decimal(d))
                              .quantize(one, rounding=mode))
                    got = ref_round(x, mode)
                    if got != exp:
                        raise AssertionError(
                            f"oracle rounding self-test: {x} {mode}: {got}!={exp}")
    _SELFTEST_DONE = True


# --------------------------------------------------------------------------
# numbers as data
#
# enc = [kind, text(, extra)]
#   int    ["int", "12"]
#   dec    ["dec", "n/d"]            decimalfp.Decimal holding exactly n/d
#   decp   ["decp", "n/d", p]        same with surplus precision p (trailing 0s)
#   frac   ["frac", "n/d"]           fractions.Fraction
#   float  ["float", "<hex>"]        python float (float.fromhex)
#   str    ["str", "<literal>"]      numeric text accepted by Fraction()/Decimal
#   sdec   ["sdec", "<literal>"]     decimal.Decimal(literal)
#   bool   ["bool", "1"]

def exact(enc) -> Fraction:
    """Exact rational value of an encoded number (stdlib only)."""
    k, t = enc[0], enc[1]
    if k in ("int", "dec", "decp", "frac"):
        return Fraction(t)
    if k == "float":
        return Fraction(*float.fromhex(t).as_integer_ratio())
    if k == "str":
        return Fraction(t.strip())
    if k == "sdec":
        return Fraction(_stddec.Decimal(t))
    if k == "bool":
        return Fraction(int(t))
    raise ValueError(enc)


def is_dec_repr(fr: Fraction) -> bool:
    d = fr.denominator
    while d % 2 == 0:
        d //= 2
    while d % 5 == 0:
        d //= 5
    return d == 1


def dec_places(fr: Fraction) -> int:
    """Number of fractional decimal digits of a terminating fraction."""
    d = fr.denominator
    p = 0
    while (10 ** p) % d:
        p += 1
    return p


def mknum(enc):
    """Build the python object an encoded number stands for."""
    from decimalfp import Decimal
    k, t = enc[0], enc[1]
    if k == "int":
        return int(t)
    if k == "dec":
        return Decimal(Fraction(t))
    if k == "decp":
        fr = Fraction(t)
        return Decimal(fr, max(int(enc[2]), dec_places(fr)))
    if k == "frac":
        return Fraction(t)
    if k == "float":
        return float.fromhex(t)
    if k == "str":
        return t
    if k == "sdec":
        return _stddec.Decimal(t)
    if k == "bool":
        return bool(int(t))
    raise ValueError(enc)


def F(x) -> Fraction:
    """Exact Fraction of a number object coming back from the library."""
    if isinstance(x, Fraction):
        return x
    if isinstance(x, bool):
        return Fraction(int(x))
    if isinstance(x, int):
        return Fraction(x)
    if isinstance(x, float):
        if math.isnan(x) or math.isinf(x):
            raise ValueError("not finite")
        return Fraction(*x.as_integer_ratio())
    num = getattr(x, "numerator", None)
    den = getattr(x, "denominator", None)
    if num is not None and den is not None:
        return Fraction(int(num), int(den))
    if isinstance(x, _stddec.Decimal):
        return Fraction(x)
    raise TypeError(f"not a rational: {x!r}")


def is_exact_type(x) -> bool:
    """True for the exact rational types the library may hold (no float)."""
    from decimalfp import Decimal
    return isinstance(x, (Decimal, Fraction, int)) and not isinstance(x, bool) \
        or isinstance(x, bool)


def fs(fr) -> str:
    fr = Fraction(fr)
    return f"{fr.numerator}/{fr.denominator}" if fr.denominator != 1 \
        else str(fr.numerator)

"""A fixed set of user-declared quantity types ("lab" types), declared once per
process at import, with their model scales/quanta written by hand.

They complement the generated universes: quanta of every rational kind
(1/3, 0.05, 7, 2**-10), quantized derived types, chained / term-defined /
derived-from-base units, alias units (factor 1).
"""
from fractions import Fraction as Fr

from . import env  # noqa: F401
from decimalfp import Decimal
from quantity import Quantity, QuantityMeta
from quantity.term import Term

_P = "Lab"


def _cls(name, **kw):
    return QuantityMeta(name, (Quantity,), {}, **kw)


# NB: for a quantized type `factor * unit` is itself a quantity of that type and
# is rounded to the quantum, so scale factors must lie on the defining unit's grid.
# base, quantum 1/3 (Fraction)
LabA = _cls("LabA", ref_unit_symbol="la", ref_unit_name="lab-a", quantum=Fr(1, 3))
LA = LabA.ref_unit
LA_K = LabA.new_unit("kla", "kilo la", 1000 * LA)
LA_H = LabA.new_unit("hla", "two thirds la", Fr(2, 3) * LA)
LA_T = LabA.new_unit("tla", "7/3 la", Fr(7, 3) * LA)
LA_M = LabA.new_unit("mla", "third la", Fr(1, 3) * LA)

# base, quantum 0.05 (Decimal)
LabB = _cls("LabB", ref_unit_symbol="lb_", ref_unit_name="lab-b", quantum=Decimal("0.05"))
LB = LabB.ref_unit
LB_D = LabB.new_unit("dlb_", "dozen", 12 * LB)
LB_C = LabB.new_unit("clb_", "twentieth", Decimal("0.05") * LB)

# base, no quantum
LabC = _cls("LabC", ref_unit_symbol="lc", ref_unit_name="lab-c")
LC = LabC.ref_unit
LC_K = LabC.new_unit("klc", "kilo lc", 1000 * LC)
LC_I = LabC.new_unit("ilc", "inchy", Decimal("2.54") * LabC.new_unit("clc", "centi lc", Decimal("0.01") * LC))
LC_C = LabC.get_unit_by_symbol("clc")
LC_3 = LabC.new_unit("tlc", "third", Fr(1, 3) * LC)

# base, no quantum
LabD = _cls("LabD", ref_unit_symbol="ld", ref_unit_name="lab-d")
LD = LabD.ref_unit
LD_M = LabD.new_unit("mld", "sixty", 60 * LD)
LD_H = LabD.new_unit("hld", "3600", 60 * LD_M)

# derived, quantized with quantum 2**-10
LabCC = _cls("LabCC", define_as=LabC ** 2, ref_unit_name="sq lc", quantum=Fr(1, 1024))
LCC = LabCC.ref_unit
LCC_C = LabCC.derive_unit_from(LC_C)
LCC_K = LabCC.derive_unit_from(LC_K)
LCC_A = LabCC.new_unit("alcc", "are-like", 100 * LCC)

# derived, quantized with integer quantum 7
LabCD = _cls("LabCD", define_as=LabC / LabD, ref_unit_symbol="lcd", ref_unit_name="lc per ld", quantum=7)
LCD = LabCD.ref_unit
LCD_KH = LabCD.derive_unit_from(LC_K, LD_H, symbol="klc/hld")
LCD_T = LabCD.new_unit("tlcd", "term-defined", Term(((LC_I, 1), (LD_M, -1))))

# derived, not quantized, from quantized components
LabAD = _cls("LabAD", define_as=LabA / LabD, ref_unit_name="la per ld")
LAD = LabAD.ref_unit
LAD_K = LabAD.derive_unit_from(LA_K, LD_H)

# derived inverse type, quantized (quantum 1/4): number / quantity lands here
LabDi = _cls("LabDi", define_as=LabD ** -1, ref_unit_symbol="ldi", ref_unit_name="per ld", quantum=Fr(1, 4))
LDI = LabDi.ref_unit
LDI_M = LabDi.derive_unit_from(LD_M, symbol="pmld")

# base, quantum 1 (int); a term-defined unit may have a scale below the quantum
LabE = _cls("LabE", ref_unit_symbol="le", ref_unit_name="lab-e", quantum=1)
LE = LabE.ref_unit
LE_8 = LabE.new_unit("ele", "eighth", Term(((Fr(1, 8), 1), (LE, 1))))
LE_D = LabE.new_unit("dle", "dozen", 12 * LE)

# base type WITHOUT reference unit: bare units and units scaled from them (like K, °C and a user's mK).  Not part
# of UNITS / DIMS below: nothing converts between them.
LabN = _cls("LabN")
LN_A = LabN.new_unit("lna", "bare a")
LN_B = LabN.new_unit("lnb", "bare b")
LN_KA = LabN.new_unit("klna", "kilo lna", 1000 * LN_A)
LN_MB = LabN.new_unit("mlnb", "milli lnb", Decimal("0.001") * LN_B)
NOREF_UNITS = ["lna", "lnb", "klna", "mlnb"]

# symbol -> (type name, scale in reference units)
UNITS = {
    "la": ("LabA", Fr(1)), "kla": ("LabA", Fr(1000)), "hla": ("LabA", Fr(2, 3)), "tla": ("LabA", Fr(7, 3)),
    "mla": ("LabA", Fr(1, 3)),
    "lb_": ("LabB", Fr(1)), "dlb_": ("LabB", Fr(12)), "clb_": ("LabB", Fr(1, 20)),
    "lc": ("LabC", Fr(1)), "klc": ("LabC", Fr(1000)), "clc": ("LabC", Fr(1, 100)), "ilc": ("LabC", Fr(254, 10000)),
    "tlc": ("LabC", Fr(1, 3)),
    "ld": ("LabD", Fr(1)), "mld": ("LabD", Fr(60)), "hld": ("LabD", Fr(3600)),
    LCC.symbol: ("LabCC", Fr(1)), LCC_C.symbol: ("LabCC", Fr(1, 10000)), LCC_K.symbol: ("LabCC", Fr(10 ** 6)),
    "alcc": ("LabCC", Fr(100)),
    "lcd": ("LabCD", Fr(1)), "klc/hld": ("LabCD", Fr(1000, 3600)), "tlcd": ("LabCD", Fr(254, 10000) / 60),
    LAD.symbol: ("LabAD", Fr(1)), LAD_K.symbol: ("LabAD", Fr(1000, 3600)),
    "ldi": ("LabDi", Fr(1)), "pmld": ("LabDi", Fr(1, 60)),
    "le": ("LabE", Fr(1)), "ele": ("LabE", Fr(1, 8)), "dle": ("LabE", Fr(12)),
}
QUANTUM = {"LabA": Fr(1, 3), "LabB": Fr(5, 100), "LabCC": Fr(1, 1024), "LabCD": Fr(7), "LabDi": Fr(1, 4), "LabE": Fr(1)}
DIMS = {"LabA": {"LabA": 1}, "LabB": {"LabB": 1}, "LabC": {"LabC": 1}, "LabD": {"LabD": 1},
        "LabCC": {"LabC": 2}, "LabCD": {"LabC": 1, "LabD": -1}, "LabAD": {"LabA": 1, "LabD": -1}, "LabDi": {"LabD": -1}, "LabE": {"LabE": 1}}
CLASSES = {"LabA": LabA, "LabB": LabB, "LabC": LabC, "LabD": LabD, "LabCC": LabCC, "LabCD": LabCD,
           "LabAD": LabAD, "LabDi": LabDi, "LabE": LabE}


def units_of(t):
    return [s for s, (tt, _) in UNITS.items() if tt == t]

"""Unit descriptors for the predefined catalogue and ISO currencies.

desc = "km"            symbol of a predefined unit
     | ["cur", "EUR"]  ISO 4217 currency (registered on demand)
Model side (scale, quantum) comes from refdata / iso, never from the library.
"""
from fractions import Fraction

from . import env  # noqa: F401
from . import iso, lab, refdata

ALL_UNITS = dict(refdata.UNITS)
ALL_UNITS.update(lab.UNITS)
ALL_QUANTUM = dict(refdata.QUANTUM)
ALL_QUANTUM.update(lab.QUANTUM)
ALL_DIMS = dict(refdata.DIMS)
ALL_DIMS.update(lab.DIMS)


# user-declared currencies (Money.new_unit) whose smallest fraction is NOT a power of ten: code -> (minor_unit,
# smallest_fraction as given to the library).  None of the codes is in the ISO 4217 table.
LAB_CUR = {"XL5": (2, "0.05"), "XQ4": (2, "0.25"), "XH1": (1, "0.5"), "XT2": (3, "0.002")}


def unit(desc):
    from quantity import Unit
    if isinstance(desc, (list, tuple)):
        from quantity.money import Money
        code = desc[1]
        if code in LAB_CUR:
            try:
                return Money.get_unit_by_symbol(code)
            except ValueError:
                mu, sf = LAB_CUR[code]
                return Money.new_unit(code, f"lab currency {code}", mu, sf)
        return Money.register_currency(code)
    return Unit(desc)


def tname(desc):
    if isinstance(desc, (list, tuple)):
        return "Money"
    if desc in refdata.TEMP_UNITS:
        return "Temperature"
    return ALL_UNITS[desc][0]


def scale(desc) -> Fraction:
    if isinstance(desc, (list, tuple)):
        return Fraction(1)
    return ALL_UNITS[desc][1]


def quantum(desc):
    """Quantum expressed in the unit itself, or None."""
    if isinstance(desc, (list, tuple)):
        if desc[1] in LAB_CUR:
            return Fraction(LAB_CUR[desc[1]][1])
        return iso.fraction_of(desc[1])
    t = ALL_UNITS[desc][0] if desc in ALL_UNITS else None
    q = ALL_QUANTUM.get(t)
    if q is None:
        return None
    return q / ALL_UNITS[desc][1]


def units_of(t):
    return [s for s, (tt, _) in ALL_UNITS.items() if tt == t]


def cls_of(t):
    import quantity.predefined as pre
    return lab.CLASSES.get(t) or getattr(pre, t)


QUANTIZED_TYPES = sorted(ALL_QUANTUM)
LINEAR_TYPES = [t for t in ALL_DIMS if t != "Temperature"]


def sym(desc):
    return desc[1] if isinstance(desc, (list, tuple)) else desc


CUR_SAMPLE = ["EUR", "USD", "JPY", "TND", "KWD", "CLF", "UYW", "ISK", "BHD", "CHF", "GBP", "KRW"] + sorted(LAB_CUR)

cls_of_any = cls_of

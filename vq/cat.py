"""Unit descriptors for the predefined catalogue and ISO currencies.

desc = "km"            symbol of a predefined unit
     | ["cur", "EUR"]  ISO 4217 currency (registered on demand)
Model side (scale, quantum) comes from refdata / iso, never from the library.
"""
from fractions import Fraction

from . import env  # noqa: F401
from . import iso, lab, refdata

ALL_UNITS = dict(refdata.UNITS)
ALL_UNITS.update(lab.UNITS)
ALL_QUANTUM = dict(refdata.QUANTUM)
ALL_QUANTUM.update(lab.QUANTUM)
ALL_DIMS = dict(refdata.DIMS)
ALL_DIMS.update(lab.DIMS)


def unit(desc):
    from quantity import Unit
    if isinstance(desc, (list, tuple)):
        from quantity.money import Money
        return Money.register_currency(desc[1])
    return Unit(desc)


def tname(desc):
    if isinstance(desc, (list, tuple)):
        return "Money"
    if desc in refdata.TEMP_UNITS:
        return "Temperature"
    return ALL_UNITS[desc][0]


def scale(desc) -> Fraction:
    if isinstance(desc, (list, tuple)):
        return Fraction(1)
    return ALL_UNITS[desc][1]


def quantum(desc):
    """Quantum expressed in the unit itself, or None."""
    if isinstance(desc, (list, tuple)):
        return iso.fraction_of(desc[1])
    t = ALL_UNITS[desc][0] if desc in ALL_UNITS else None
    q = ALL_QUANTUM.get(t)
    if q is None:
        return None
    return q / ALL_UNITS[desc][1]


def units_of(t):
    return [s for s, (tt, _) in ALL_UNITS.items() if tt == t]


def cls_of(t):
    import quantity.predefined as pre
    return lab.CLASSES.get(t) or getattr(pre, t)


QUANTIZED_TYPES = sorted(ALL_QUANTUM)
LINEAR_TYPES = [t for t in ALL_DIMS if t != "Temperature"]


def sym(desc):
    return desc[1] if isinstance(desc, (list, tuple)) else desc


CUR_SAMPLE = ["EUR", "USD", "JPY", "TND", "KWD", "CLF", "UYW", "ISK", "BHD", "CHF", "GBP", "KRW"]

cls_of_any = cls_of

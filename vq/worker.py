"""Fresh-process executor of a schedule (C17).

A schedule is a list of events over a program's declarations and operations:
    {"e": "decl", "i": k}                 execute declaration k of the program
    {"e": "op", "i": j}                   evaluate operation j and report the raw outcome
The program's declarations use the universe spec format with ORIGINAL type and
unit numbers (numbering of the unpermuted program, the predefined catalogue
first), so every schedule gives every object the same name.

Used in two ways: imported by vq.props.c17, which forks one child per schedule
from a process that has only imported the library; and as a real new
interpreter: python -m vq.worker < schedule.json > outcome.json
"""
from __future__ import annotations

import json
import sys

from . import env  # noqa: F401  (substrate switch before the library is imported)

import quantity  # noqa: E402
import quantity.predefined as pre  # noqa: E402
import quantity.money  # noqa: E402,F401
from quantity import Quantity, QuantityMeta, UndefinedResultError, Unit  # noqa: E402
from quantity.term import Term  # noqa: E402
import quantity.si_prefixes as sip  # noqa: E402

from .model import F, fs, mknum  # noqa: E402
from . import refdata  # noqa: E402

from .refdata import CAT_TYPES, catalogue_units  # noqa: E402


def execute(program, schedule, prefix="p"):
    """Run one schedule; returns the list of outcome records of its op events."""
    ncat_t = len(CAT_TYPES) if program.get("catalogue") else 0
    types = {}
    ns = {}     # one namespace dict shared by all functional declarations of the program
    units = {}
    if program.get("catalogue"):
        for i, t in enumerate(CAT_TYPES):
            types[i] = getattr(pre, t)
        for i, (s, t) in enumerate(catalogue_units()):
            units[i] = Unit(s)
    ncat_u = len(units)
    decls = program["decls"]
    # original numbering of the objects each declaration creates
    tnum, unum = {}, {}
    nt, nu = ncat_t, len(units)
    for k, d in enumerate(decls):
        if d["d"] == "type":
            tnum[k] = nt
            nt += 1
            if d["_has_ref"]:
                unum[k] = nu
                nu += 1
        else:
            unum[k] = nu
            nu += 1
    out = []
    for pos, ev in enumerate(schedule):
        if ev["e"] == "decl":
            k = ev["i"]
            d = decls[k]
            if d["d"] == "type":
                ti = tnum[k]
                name = f"{prefix.upper()}T{ti}"
                kw = {}
                if d.get("quantum"):
                    kw["quantum"] = mknum(d["quantum"])
                if d["kind"] == "base":
                    if d["ref"]:
                        kw.update(ref_unit_symbol=f"{prefix}u{unum[k]}", ref_unit_name=f"ref of {name}")
                else:
                    objs = [(types[t], e) for t, e in d["def"]]
                    if d["how"] == "term":
                        kw["define_as"] = Term(objs)
                    else:
                        defn = None
                        for c, e in objs:
                            if defn is None:
                                defn = c if e == 1 and len(objs) > 1 else c ** e
                            elif e == 1:
                                defn = defn * c
                            elif e == -1:
                                defn = defn / c
                            elif e > 0:
                                defn = defn * (c ** e)
                            else:
                                defn = defn / (c ** -e)
                        kw["define_as"] = defn
                    if d["_has_ref"] and d.get("refsym"):
                        kw.update(ref_unit_symbol=f"{prefix}u{unum[k]}", ref_unit_name=f"ref of {name}")
                cls = QuantityMeta(name, (Quantity,), ns, **kw)
                types[ti] = cls
                if d["_has_ref"]:
                    units[unum[k]] = cls.ref_unit
            else:
                cls = types[d["t"]]
                sym = f"{prefix}u{unum[k]}"
                how = d["how"]
                if how == "bare":
                    u = cls.new_unit(sym, f"unit {sym}")
                elif how == "scaled":
                    of = units[d["of"]]
                    f = d["f"]
                    fo = getattr(sip, f[1]) if f[0] == "si" else mknum(f)
                    u = cls.new_unit(sym, f"unit {sym}", fo * of if d["side"] == "l" else of * fo)
                elif how == "derive":
                    u = cls.derive_unit_from(*[units[a] for a in d["args"]], symbol=sym, name=f"unit {sym}")
                else:
                    items = [((units[el] if isinstance(el, int) else mknum(el)), e) for el, e in d["items"]]
                    u = cls.new_unit(sym, f"unit {sym}", Term(items))
                units[unum[k]] = u
            continue
        o = program["ops"][ev["i"]]
        rec = {"i": ev["i"], "at": pos}
        try:
            shape = o["shape"]
            U = units[o["u"]]
            left = Quantity(mknum(o["a"]), U) if shape[0] == "q" else U
            if o["op"] == "**":
                r = left ** o["n"]
            elif o["op"] == "k/":
                r = mknum(o["kk"]) / left
            else:
                V = units[o["v"]]
                right = Quantity(mknum(o["b"]), V) if shape[1] == "q" else V
                r = left * right if o["op"] == "*" else left / right
        except UndefinedResultError:
            rec["r"] = ["undefined"]
        except Exception as exc:  # noqa: BLE001
            rec["r"] = ["exc", type(exc).__name__, str(exc)[:120]]
        else:
            if isinstance(r, Quantity):
                rec["r"] = ["typed", type(r).__name__, r.unit.symbol, fs(F(r.amount)), type(r.amount).__name__]
            elif isinstance(r, tuple):
                rec["r"] = ["uu", fs(F(r[0])), None if r[1] is None else r[1].symbol,
                            None if r[1] is None else r[1].qty_cls.__name__]
            else:
                rec["r"] = ["number", fs(F(r)), type(r).__name__]
        out.append(rec)
    return {"ops": out, "syms": {str(i): u.symbol for i, u in units.items() if i >= ncat_u}}


def main():
    job = json.load(sys.stdin)
    res = execute(job["program"], job["schedule"])
    json.dump(res, sys.stdout, ensure_ascii=False)


if __name__ == "__main__":
    main()

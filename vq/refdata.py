"""Hand-written reference table for the predefined catalogue.

Sources: SI brochure (9th ed.), international yard and pound agreement of 1959
(1 yd = 0.9144 m, 1 lb = 0.45359237 kg), IEC 80000-13 (binary prefixes),
customary definitions (1 ch = 22 yd, 1 fur = 10 ch, 1 mi = 8 fur = 1760 yd,
1 ac = 4840 yd2, 1 st = 14 lb, 1 oz = 1/16 lb, 1 ct = 200 mg, 1 a = 100 m2,
1 ha = 100 a, 1 l = 1 dm3).

Nothing here is computed with the library; compound units are the product of
the component scales taken from this table.
"""
from fractions import Fraction as Fr

# base dimensions
BASE = ["Mass", "Length", "Duration", "DataVolume", "Temperature"]

# type -> dimension vector over BASE names
DIMS = {
    "Mass": {"Mass": 1},
    "Length": {"Length": 1},
    "Duration": {"Duration": 1},
    "Area": {"Length": 2},
    "Volume": {"Length": 3},
    "Velocity": {"Length": 1, "Duration": -1},
    "Acceleration": {"Length": 1, "Duration": -2},
    "Force": {"Mass": 1, "Length": 1, "Duration": -2},
    "Energy": {"Mass": 1, "Length": 2, "Duration": -2},
    "Power": {"Mass": 1, "Length": 2, "Duration": -3},
    "Frequency": {"Duration": -1},
    "DataVolume": {"DataVolume": 1},
    "DataThroughput": {"DataVolume": 1, "Duration": -1},
    "Temperature": {"Temperature": 1},
}

REF_SYMBOL = {
    "Mass": "kg", "Length": "m", "Duration": "s", "Area": "m²", "Volume": "m³",
    "Velocity": "m/s", "Acceleration": "m/s²", "Force": "N", "Energy": "J",
    "Power": "W", "Frequency": "Hz", "DataVolume": "B", "DataThroughput": "B/s",
}

QUANTUM = {"DataVolume": Fr(1, 8)}      # in reference units; all others: none

_inch = Fr(254, 10000)
_foot = 12 * _inch
_yard = 3 * _foot               # 0.9144
assert _yard == Fr(9144, 10000)
_chain = 22 * _yard
_furlong = 10 * _chain
_mile = 1760 * _yard            # 1609.344
assert _mile == 8 * _furlong == Fr(1609344, 1000)
_pound = Fr(45359237, 100000000)
_min = Fr(60)
_hour = Fr(3600)
_day = Fr(86400)
_ki, _mi_, _gi, _ti = Fr(2 ** 10), Fr(2 ** 20), Fr(2 ** 30), Fr(2 ** 40)
_k, _M, _G, _T = Fr(10 ** 3), Fr(10 ** 6), Fr(10 ** 9), Fr(10 ** 12)
_bit = Fr(1, 8)

# symbol -> (type, scale in reference units of the type)
UNITS = {
    # Mass (kg)
    "kg": ("Mass", Fr(1)), "g": ("Mass", Fr(1, 1000)), "mg": ("Mass", Fr(1, 10 ** 6)),
    "t": ("Mass", Fr(1000)), "lb": ("Mass", _pound), "st": ("Mass", 14 * _pound),
    "oz": ("Mass", _pound / 16), "ct": ("Mass", Fr(2, 10000)),
    # Length (m)
    "m": ("Length", Fr(1)), "nm": ("Length", Fr(1, 10 ** 9)), "µm": ("Length", Fr(1, 10 ** 6)),
    "mm": ("Length", Fr(1, 1000)), "cm": ("Length", Fr(1, 100)), "dm": ("Length", Fr(1, 10)),
    "km": ("Length", Fr(1000)), "in": ("Length", _inch), "ft": ("Length", _foot),
    "yd": ("Length", _yard), "ch": ("Length", _chain), "fur": ("Length", _furlong),
    "mi": ("Length", _mile),
    # Duration (s)
    "s": ("Duration", Fr(1)), "ns": ("Duration", Fr(1, 10 ** 9)), "µs": ("Duration", Fr(1, 10 ** 6)),
    "ms": ("Duration", Fr(1, 1000)), "min": ("Duration", _min), "h": ("Duration", _hour),
    "d": ("Duration", _day),
    # Area (m2)
    "m²": ("Area", Fr(1)), "mm²": ("Area", Fr(1, 10 ** 6)), "cm²": ("Area", Fr(1, 10 ** 4)),
    "dm²": ("Area", Fr(1, 100)), "km²": ("Area", Fr(10 ** 6)), "a": ("Area", Fr(100)),
    "ha": ("Area", Fr(10 ** 4)), "in²": ("Area", _inch ** 2), "ft²": ("Area", _foot ** 2),
    "yd²": ("Area", _yard ** 2), "mi²": ("Area", _mile ** 2), "ac": ("Area", 4840 * _yard ** 2),
    # Volume (m3)
    "m³": ("Volume", Fr(1)), "mm³": ("Volume", Fr(1, 10 ** 9)), "cm³": ("Volume", Fr(1, 10 ** 6)),
    "dm³": ("Volume", Fr(1, 1000)), "km³": ("Volume", Fr(10 ** 9)), "l": ("Volume", Fr(1, 1000)),
    "ml": ("Volume", Fr(1, 10 ** 6)), "cl": ("Volume", Fr(1, 10 ** 5)), "dl": ("Volume", Fr(1, 10 ** 4)),
    "in³": ("Volume", _inch ** 3), "ft³": ("Volume", _foot ** 3), "yd³": ("Volume", _yard ** 3),
    # Velocity (m/s)
    "m/s": ("Velocity", Fr(1)), "km/h": ("Velocity", Fr(1000) / _hour),
    "ft/s": ("Velocity", _foot), "mph": ("Velocity", _mile / _hour),
    # Acceleration (m/s2)
    "m/s²": ("Acceleration", Fr(1)), "mps²": ("Acceleration", _mile),
    # Force (N)
    "N": ("Force", Fr(1)), "J/m": ("Force", Fr(1)),
    # Energy (J)
    "J": ("Energy", Fr(1)), "Nm": ("Energy", Fr(1)), "Ws": ("Energy", Fr(1)),
    "kWh": ("Energy", Fr(3600000)),
    # Power (W)
    "W": ("Power", Fr(1)), "mW": ("Power", Fr(1, 1000)), "kW": ("Power", _k),
    "MW": ("Power", _M), "GW": ("Power", _G), "TW": ("Power", _T),
    # Frequency (Hz)
    "Hz": ("Frequency", Fr(1)), "kHz": ("Frequency", _k), "MHz": ("Frequency", _M),
    "GHz": ("Frequency", _G),
    # DataVolume (B)
    "B": ("DataVolume", Fr(1)), "kB": ("DataVolume", _k), "MB": ("DataVolume", _M),
    "GB": ("DataVolume", _G), "TB": ("DataVolume", _T),
    "KiB": ("DataVolume", _ki), "MiB": ("DataVolume", _mi_), "GiB": ("DataVolume", _gi),
    "TiB": ("DataVolume", _ti),
    "b": ("DataVolume", _bit), "kb": ("DataVolume", _k * _bit), "Mb": ("DataVolume", _M * _bit),
    "Gb": ("DataVolume", _G * _bit), "Tb": ("DataVolume", _T * _bit),
    "Kib": ("DataVolume", _ki * _bit), "Mib": ("DataVolume", _mi_ * _bit),
    "Gib": ("DataVolume", _gi * _bit), "Tib": ("DataVolume", _ti * _bit),
    # DataThroughput (B/s)
    "B/s": ("DataThroughput", Fr(1)), "kB/s": ("DataThroughput", _k), "MB/s": ("DataThroughput", _M),
    "GB/s": ("DataThroughput", _G), "TB/s": ("DataThroughput", _T),
    "KiB/s": ("DataThroughput", _ki), "MiB/s": ("DataThroughput", _mi_),
    "GiB/s": ("DataThroughput", _gi), "TiB/s": ("DataThroughput", _ti),
    "b/s": ("DataThroughput", _bit), "kb/s": ("DataThroughput", _k * _bit),
    "Mb/s": ("DataThroughput", _M * _bit), "Gb/s": ("DataThroughput", _G * _bit),
    "Tb/s": ("DataThroughput", _T * _bit), "Kib/s": ("DataThroughput", _ki * _bit),
    "Mib/s": ("DataThroughput", _mi_ * _bit), "Gib/s": ("DataThroughput", _gi * _bit),
    "Tib/s": ("DataThroughput", _ti * _bit),
}

TEMP_UNITS = ["°C", "°F", "K"]

# affine maps to kelvin: K = a * x + b
TEMP_TO_K = {
    "K": (Fr(1), Fr(0)),
    "°C": (Fr(1), Fr(27315, 100)),
    "°F": (Fr(5, 9), Fr(45967, 100) * Fr(5, 9)),
}

SI_PREFIX_EXP = {
    "YOCTO": -24, "ZEPTO": -21, "ATTO": -18, "FEMTO": -15, "PICO": -12, "NANO": -9,
    "MICRO": -6, "MILLI": -3, "CENTI": -2, "DECI": -1, "DECA": 1, "HECTO": 2,
    "KILO": 3, "MEGA": 6, "GIGA": 9, "TERA": 12, "PETA": 15, "EXA": 18,
    "ZETTA": 21, "YOTTA": 24,
}
SI_PREFIX_ABBR = {
    "YOCTO": "y", "ZEPTO": "z", "ATTO": "a", "FEMTO": "f", "PICO": "p", "NANO": "n",
    "MICRO": "µ", "MILLI": "m", "CENTI": "c", "DECI": "d", "DECA": "da", "HECTO": "h",
    "KILO": "k", "MEGA": "M", "GIGA": "G", "TERA": "T", "PETA": "P", "EXA": "E",
    "ZETTA": "Z", "YOTTA": "Y",
}

LINEAR_TYPES = [t for t in DIMS if t != "Temperature"]


def units_of(tname):
    return [s for s, (t, _) in UNITS.items() if t == tname]


def temp_convert(x, u, v):
    """Exact conversion of temperature amount x from unit u to unit v."""
    a, b = TEMP_TO_K[u]
    k = a * x + b
    c, d = TEMP_TO_K[v]
    return (k - d) / c


def dim_add(d1, d2, sign=1):
    out = dict(d1)
    for k, e in d2.items():
        out[k] = out.get(k, 0) + sign * e
        if out[k] == 0:
            del out[k]
    return out


def dim_mul(d, n):
    return {k: e * n for k, e in d.items() if e * n != 0}


def type_of_dims(d):
    for t, dv in DIMS.items():
        if dv == d:
            return t
    return None


assert len(UNITS) == 110, len(UNITS)

# the predefined catalogue in a fixed numbering (C17: worker and model must agree)
CAT_TYPES = ["Mass", "Length", "Duration", "DataVolume", "Temperature", "Area", "Volume", "Velocity", "Acceleration",
             "Force", "Energy", "Power", "Frequency", "DataThroughput"]
# definition of the derived types in terms of other types, in the order derive_unit_from expects
CAT_DEFN = {"Area": [("Length", 2)], "Volume": [("Length", 3)], "Velocity": [("Length", 1), ("Duration", -1)],
            "Acceleration": [("Length", 1), ("Duration", -2)], "Force": [("Mass", 1), ("Acceleration", 1)],
            "Energy": [("Force", 1), ("Length", 1)], "Power": [("Energy", 1), ("Duration", -1)],
            "Frequency": [("Duration", -1)], "DataThroughput": [("DataVolume", 1), ("Duration", -1)]}


def catalogue_units():
    """[(symbol, type name)]: reference units of the linear types in type order, the temperature units, the rest."""
    out = []
    for t in CAT_TYPES:
        if t != "Temperature":
            out.append((REF_SYMBOL[t], t))
    for s in TEMP_UNITS:
        out.append((s, "Temperature"))
    for s, (t, _) in UNITS.items():
        if s != REF_SYMBOL[t]:
            out.append((s, t))
    return out

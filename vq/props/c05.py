"""C05 — quantized types hold the nearest multiple of the quantum, rounded once."""
from fractions import Fraction

from .. import env  # noqa: F401
from hypothesis import strategies as st

import decimalfp
from decimalfp import ROUNDING

from quantity import Quantity, Unit
from quantity import sum as quantity_sum
import quantity.predefined as pre  # noqa: F401
from quantity.money import Money  # noqa: F401

from .. import cat, gen, iso, refdata, universe
from ..model import F, HALF_MODES, MODES, exact, fs, mknum, round_to, selftest_rounding
from ..runner import Part

PID = "C05"
TECHNIQUE = ("Hypothesis generated-input search over producing operations x 8 default rounding modes against an exact "
             "Fraction model rounded once by an independent rounding implementation; ISO table enumerated")
RULE = ("cases = (producing operation, operands, default rounding mode): constructor from every input kind, "
        "amount*unit, + - * / by numbers, products/quotients/powers with a quantized result type, convert, round, "
        "abs/neg, text with another unit; units = every DataVolume unit, ISO currencies (all 167 enumerated once per "
        "mode in the 'iso' part), lab types with quanta 1/3, 0.05, 7, 2**-10; amounts biased to ties/near-ties of the "
        "target grid. Oracle: exact result on Fractions from the stored operand amounts, rounded once with an "
        "independent implementation of the mode. Non-trivial = exact result off the target grid; distinct by digest")
FLOORS = {"ops/offgrid": (0.35, "ops/cases"), "ops/tie": (0.10, "ops/cases")}

selftest_rounding()

QT = cat.QUANTIZED_TYPES            # DataVolume, LabA, LabB, LabCC, LabCD
_QUNITS = [s for s, (t, _) in cat.ALL_UNITS.items() if t in QT]
_ALL = list(cat.ALL_UNITS)


def _dims(t):
    return cat.ALL_DIMS[t]


def _find_type(d):
    for t, dv in cat.ALL_DIMS.items():
        if dv == d:
            return t
    return None


# (t1, op, t2) combinations whose result type is quantized
_BIN = []
for _t1 in cat.LINEAR_TYPES:
    for _t2 in cat.LINEAR_TYPES:
        for _op, _sg in (("*", 1), ("/", -1)):
            if _op == "/" and _t1 == _t2:
                continue
            _r = _find_type(refdata.dim_add(_dims(_t1), _dims(_t2), _sg))
            if _r in QT:
                _BIN.append((_t1, _op, _t2, _r))
_POW = []
for _t1 in cat.LINEAR_TYPES:
    for _n in (-2, -1, 2, 3):
        _r = _find_type(refdata.dim_mul(_dims(_t1), _n))
        if _r in QT:
            _POW.append((_t1, _n, _r))


def _udesc(draw, t=None):
    """unit descriptor of a quantized type"""
    k = draw(st.integers(0, 9))
    if t is None:
        if k <= 3:
            return ["cur", draw(st.sampled_from(cat.CUR_SAMPLE))]
        return draw(st.sampled_from(_QUNITS))
    return draw(st.sampled_from(cat.units_of(t)))


def _grid_amount(draw, q, mode):
    """amount aimed at the grid of quantum q: ties, near-ties, on-grid, random."""
    return gen.pick(draw, (6, gen.near_tie(q, mode)), (4, gen.fractions()))


_IN_KINDS = ("int", "dec", "decp", "frac", "float", "str", "sdec")


@st.composite
def gen_case(draw):
    mode = draw(gen.modes)
    op = gen.pick(draw, (3, st.just("ctor")), (3, st.just("arith")), (2, st.just("addsub")),
                  (2, st.just("convert")), (3, st.just("prod")), (1, st.just("round")),
                  (1, st.just("str_other")), (2, st.just("conv_money")))
    c = {"k": op, "dflt": mode}
    if op == "ctor":
        u = _udesc(draw)
        q = cat.quantum(u)
        amt = _grid_amount(draw, q, mode)
        c.update(u=u, amt=draw(gen.encode(st.just(amt), _IN_KINDS)),
                 via=draw(st.sampled_from(["cls", "factory", "mul", "rmul", "text", "text_cls"])))
    elif op == "arith":
        u = _udesc(draw)
        q = cat.quantum(u)
        a = draw(st.integers(-10 ** 6, 10 ** 6)) * q
        o = draw(st.sampled_from(["mulk", "rmulk", "divk", "neg", "abs", "pos"]))
        c.update(u=u, amt=gen.encode_as(a, "frac"), op=o)
        if o in ("mulk", "rmulk", "divk"):
            # choose k so that a*k (or a/k) is near a tie of the grid
            target = _grid_amount(draw, q, mode)
            if a != 0 and target != 0 and draw(st.booleans()):
                kv = target / a if o != "divk" else a / target
            else:
                kv = draw(gen.fractions(allow_zero=(o != "divk")))
            c["kk"] = draw(gen.encode(st.just(kv), ("int", "dec", "frac", "float")))
    elif op == "addsub":
        u = _udesc(draw)
        t = cat.tname(u)
        v = u if t == "Money" else draw(st.sampled_from(cat.units_of(t)))
        c.update(u=u, v=v, op=draw(st.sampled_from(["+", "-"])),
                 amt=gen.encode_as(draw(st.integers(-10 ** 6, 10 ** 6)) * cat.quantum(u), "frac"),
                 amt2=gen.encode_as(draw(st.integers(-10 ** 6, 10 ** 6)) * cat.quantum(v), "frac"))
    elif op == "convert":
        t = draw(st.sampled_from(QT))
        us = cat.units_of(t)
        u, v = draw(st.sampled_from(us)), draw(st.sampled_from(us))
        qv = cat.quantum(v)
        # stored amount on u's grid, aimed so that the converted value ties on v's grid
        target = _grid_amount(draw, qv, mode) * cat.scale(v) / cat.scale(u)
        qu = cat.quantum(u)
        n = round(target / qu)
        c.update(u=u, v=v, amt=gen.encode_as(n * qu, "frac"))
    elif op == "prod":
        sel = draw(st.integers(0, 4))
        if sel == 4:
            t1, n, r = draw(st.sampled_from([p for p in _POW if p[1] == -1]))
            u = draw(st.sampled_from(cat.units_of(t1)))
            a1 = draw(gen.fractions(allow_zero=False))
            target = _grid_amount(draw, cat.ALL_QUANTUM[r], mode)
            kv = target * a1 * cat.scale(u) if target != 0 else Fraction(1)
            c.update(op="k/", a={"u": u, "amt": draw(gen.encode(st.just(a1), ("int", "dec", "frac")))},
                     kk=draw(gen.encode(st.just(kv), ("int", "dec", "frac", "float"))), shape="kq")
        elif sel == 0 and _POW:
            t1, n, r = draw(st.sampled_from(_POW))
            u = draw(st.sampled_from(cat.units_of(t1)))
            c.update(op="**", n=n, a={"u": u, "amt": draw(gen.encode(gen.fractions(allow_zero=n > 0),
                                                                   ("int", "dec", "frac")))},
                     shape=draw(st.sampled_from(["q", "u"])))
        else:
            t1, o, t2, r = draw(st.sampled_from(_BIN))
            u1 = draw(st.sampled_from(cat.units_of(t1)))
            u2 = draw(st.sampled_from(cat.units_of(t2)))
            a1 = draw(gen.fractions(allow_zero=False))
            # aim the product at the reference unit's grid of the result type
            target = _grid_amount(draw, cat.ALL_QUANTUM[r], mode)
            if target == 0:
                target = Fraction(1)
            if o == "*":
                a2 = target / (a1 * cat.scale(u1) * cat.scale(u2))
            else:
                a2 = a1 * cat.scale(u1) / (target * cat.scale(u2))
            c.update(op=o, a={"u": u1, "amt": gen.encode_as(a1, "frac")},
                     b={"u": u2, "amt": gen.encode_as(a2, "frac")},
                     shape=draw(st.sampled_from(["qq", "qq", "qu", "uq"])))
    elif op == "round":
        u = _udesc(draw)
        c.update(u=u, amt=gen.encode_as(draw(st.integers(-10 ** 6, 10 ** 6)) * cat.quantum(u), "frac"),
                 n=draw(st.integers(-3, 6)))
    elif op == "conv_money":
        # mixed-currency arithmetic / conversion through a registered converter: rounded once
        c1, c2 = draw(st.permutations(cat.CUR_SAMPLE))[:2]
        rate = Fraction(draw(st.integers(1, 10 ** 6)), 10 ** draw(st.integers(0, 4)))     # 1e-4 .. 1e6, <= 4 digits
        q1, q2 = cat.quantum(["cur", c1]), cat.quantum(["cur", c2])
        a2 = draw(st.integers(-10 ** 5, 10 ** 5)) * q2
        a1 = draw(st.integers(-10 ** 5, 10 ** 5)) * q1
        if draw(st.booleans()) and a2 != 0:
            # aim a1 + a2*rate at a tie of c1's grid
            tgt = _grid_amount(draw, q1, mode)
            a1 = round_to(tgt - a2 * rate, q1, "ROUND_FLOOR")
        c.update(c1=c1, c2=c2, rate=fs(rate), a1=fs(a1), a2=fs(a2),
                 op=draw(st.sampled_from(["+", "-", "convert", "radd"])))
    elif op == "str_other":
        t = draw(st.sampled_from(QT))
        us = cat.units_of(t)
        c.update(u=draw(st.sampled_from(us)), v=draw(st.sampled_from(us)),
                 amt=draw(gen.encode(gen.fractions(), ("str",))))
    return c


def enum_iso(shard, nshards):
    i = 0
    for code in sorted(iso.TABLE):
        for mode in MODES:
            i += 1
            if i % nshards == shard:
                yield {"k": "iso", "code": code, "dflt": mode}


@st.composite
def gen_universe(draw):
    """Generated universes (arbitrary rational quanta, quantized derived result types) under any default mode."""
    case = draw(universe.gen_ops_case())
    case["dflt"] = draw(gen.modes)
    return case


def parts(tier):
    big = tier == "thorough"
    return [Part("ops", "hyp", strategy=gen_case(), n=800000 if big else 50000),
            Part("iso", "enum", enum=enum_iso, exhaustive=True, shards=16),
            Part("universe", "hyp", strategy=gen_universe(), n=150000 if big else 6000, chunk=1500)]


def _q(d):
    return Quantity(mknum(d["amt"]), cat.unit(d["u"]))


def run_case(case, ctx):
    mode = case["dflt"]
    old = decimalfp.get_dflt_rounding_mode()
    decimalfp.set_dflt_rounding_mode(ROUNDING[mode])
    try:
        _run(case, ctx, mode)
    finally:
        decimalfp.set_dflt_rounding_mode(old)


def _expect(ctx, what, res, exact_in_unit, udesc_or_sym, mode, op, cls=None, grid_only=False):
    """res must hold round_once(exact_in_unit) on the grid of its unit."""
    q = cat.quantum(udesc_or_sym)
    if not isinstance(res, Quantity):
        ctx.viol(f"{op}/notqty", f"{what} returned {res!r}")
        return
    if cls is not None and type(res) is not cls:
        ctx.viol(f"{op}/type", f"{what} is a {type(res).__name__}, expected {cls.__name__}")
        return
    if isinstance(res.amount, float):
        ctx.viol(f"{op}/float", f"{what} holds a float")
        return
    got = F(res.amount)
    x = exact_in_unit / q
    off = x.denominator != 1
    if off:
        ctx.label("offgrid")
        ctx.nontrivial()
        if x.denominator == 2:
            ctx.label("tie")
    ctx.label(f"op/{op}")
    if (got / q).denominator != 1:
        ctx.viol(f"{op}/grid", f"{what} = {fs(got)} is not a multiple of the quantum {fs(q)} [{mode}]")
        return
    if grid_only:
        return
    exp = round_to(exact_in_unit, q, mode)
    if got != exp:
        dev = abs(got - exact_in_unit)
        kind = "wrongside" if dev < q else "far"
        ctx.viol(f"{op}/value/{kind}",
                 f"{what} = {fs(got)} under {mode}; exact result {fs(exact_in_unit)} rounded once to the quantum "
                 f"{fs(q)} is {fs(exp)}")


def _run(case, ctx, mode):
    k = case["k"]
    if k == "u_ops":
        import functools
        from . import c02
        ctx.label(f"mode/{mode}")
        universe.run_ops_case(case, ctx, functools.partial(c02.judge, mode=mode))
        return
    ctx.label("cases")
    ctx.label(f"mode/{mode}")
    if k == "iso":
        code = case["code"]
        cur = Money.register_currency(code)
        qf = iso.fraction_of(code)
        ctx.nontrivial()
        if F(cur.quantum) != qf or F(cur.smallest_fraction) != qf:
            ctx.viol(f"iso/quantum/{code}", f"{code}: quantum {cur.quantum}, ISO minor units give {fs(qf)}")
            return
        for amt in (Fraction(5, 2) * qf, Fraction(-7, 2) * qf, Fraction(1, 3), Fraction(123456789, 1000) + qf / 2):
            res = Money(amt, cur)
            _expect(ctx, f"Money({fs(amt)}, {code})", res, amt, ["cur", code], mode, "iso", Money)
            ctx.tick()
        return
    if k == "ctor":
        u = cat.unit(case["u"])
        cls = u.qty_cls
        enc = case["amt"]
        val = exact(enc)
        obj = mknum(enc)
        via = case["via"]
        ctx.label(f"in/{enc[0]}")
        if via in ("text", "text_cls"):
            if enc[0] != "str":
                via = "cls"
            else:
                text = f"{enc[1]} {cat.sym(case['u'])}"
        if enc[0] in ("str", "sdec") and via in ("mul", "rmul"):
            via = "factory"
        if via == "cls":
            res, what = cls(obj, u), f"{cls.__name__}({obj!r}, {u})"
        elif via == "factory":
            res, what = Quantity(obj, u), f"Quantity({obj!r}, {u})"
        elif via == "mul":
            res, what = obj * u, f"{obj!r} * {u}"
        elif via == "rmul":
            res, what = u * obj, f"{u} * {obj!r}"
        elif via == "text":
            res, what = Quantity(text), f"Quantity({text!r})"
        else:
            res, what = cls(text), f"{cls.__name__}({text!r})"
        if res.unit is not u:
            ctx.viol("ctor/unit", f"{what} has unit {res.unit}")
            return
        _expect(ctx, what, res, val, case["u"], mode, "ctor", cls)
    elif k == "arith":
        q0 = _q(case)
        a = F(q0.amount)
        cls = type(q0)
        o = case["op"]
        if o in ("mulk", "rmulk", "divk"):
            kobj, kv = mknum(case["kk"]), exact(case["kk"])
            if o == "mulk":
                res, ex, what = q0 * kobj, a * kv, f"{q0!r} * {kobj!r}"
            elif o == "rmulk":
                res, ex, what = kobj * q0, a * kv, f"{kobj!r} * {q0!r}"
            else:
                res, ex, what = q0 / kobj, a / kv, f"{q0!r} / {kobj!r}"
        elif o == "neg":
            res, ex, what = -q0, -a, f"-{q0!r}"
        elif o == "abs":
            res, ex, what = abs(q0), abs(a), f"abs({q0!r})"
        else:
            res, ex, what = +q0, a, f"+{q0!r}"
        if res.unit is not q0.unit:
            ctx.viol(f"{o}/unit", f"{what} has unit {res.unit}")
            return
        _expect(ctx, what, res, ex, case["u"], mode, o, cls)
    elif k == "addsub":
        q1 = _q(case)
        q2 = Quantity(mknum(case["amt2"]), cat.unit(case["v"]))
        ex2 = F(q2.amount) * cat.scale(case["v"]) / cat.scale(case["u"])
        if case["op"] == "+":
            res, ex, what = q1 + q2, F(q1.amount) + ex2, f"{q1!r} + {q2!r}"
        else:
            res, ex, what = q1 - q2, F(q1.amount) - ex2, f"{q1!r} - {q2!r}"
        if res.unit is not q1.unit:
            ctx.viol("addsub/unit", f"{what} has unit {res.unit}")
            return
        _expect(ctx, what, res, ex, case["u"], mode, "addsub", type(q1))
    elif k == "convert":
        q1 = _q(case)
        v = cat.unit(case["v"])
        res = q1.convert(v)
        ex = F(q1.amount) * cat.scale(case["u"]) / cat.scale(case["v"])
        if res.unit is not v:
            ctx.viol("convert/unit", f"{q1!r}.convert({v}) has unit {res.unit}")
            return
        _expect(ctx, f"{q1!r}.convert({v})", res, ex, case["v"], mode, "convert", type(q1))
    elif k == "round":
        q1 = _q(case)
        res = round(q1, case["n"])
        if res.unit is not q1.unit:
            ctx.viol("round/unit", f"round({q1!r}) has unit {res.unit}")
            return
        _expect(ctx, f"round({q1!r}, {case['n']})", res, F(q1.amount), case["u"], mode, "round", type(q1),
                grid_only=True)
    elif k == "str_other":
        v = cat.unit(case["v"])
        text = f"{case['amt'][1]} {case['u']}"
        res = Quantity(text, v)
        if res.unit is not v:
            ctx.viol("str_other/unit", f"Quantity({text!r}, {v}) has unit {res.unit}")
            return
        _expect(ctx, f"Quantity({text!r}, {v})", res, F(res.amount), case["v"], mode, "str_other", v.qty_cls,
                grid_only=True)
    elif k == "conv_money":
        import datetime
        from quantity.money import MoneyConverter
        c1, c2 = cat.unit(["cur", case["c1"]]), cat.unit(["cur", case["c2"]])
        rate = Fraction(case["rate"])
        m1, m2 = Money(Fraction(case["a1"]), c1), Money(Fraction(case["a2"]), c2)
        a1, a2 = F(m1.amount), F(m2.amount)
        if list(Money.registered_converters()):
            raise AssertionError("harness: converter stack not empty")
        conv = MoneyConverter(c2, get_dflt_effective_date=lambda: datetime.date(2020, 1, 1))
        conv.update(None, [(c1, mknum(["dec", case["rate"]]), 1)])       # 1 c2 = rate c1
        o = case["op"]
        with conv:
            if o == "+":
                res, ex, what = m1 + m2, a1 + a2 * rate, f"{m1!r} + {m2!r} at {fs(rate)} {c1}/{c2}"
            elif o == "radd":
                res, ex, what = quantity_sum([m1, m2]), a1 + a2 * rate, f"sum([{m1!r}, {m2!r}]) at {fs(rate)} {c1}/{c2}"
            elif o == "-":
                res, ex, what = m1 - m2, a1 - a2 * rate, f"{m1!r} - {m2!r} at {fs(rate)} {c1}/{c2}"
            else:
                res, ex, what = m2.convert(c1), a2 * rate, f"{m2!r}.convert({c1}) at {fs(rate)} {c1}/{c2}"
        if list(Money.registered_converters()):
            raise AssertionError("harness: converter left registered")
        if res.unit is not c1:
            ctx.viol("conv_money/unit", f"{what} has unit {res.unit}")
            return
        _expect(ctx, what, res, ex, ["cur", case["c1"]], mode, f"conv_money{o}", Money)
    elif k == "prod":
        o = case["op"]
        qa = _q(case["a"])
        ra = F(qa.amount) * cat.scale(case["a"]["u"])
        shape = case["shape"]
        if o == "k/":
            kobj, kv = mknum(case["kk"]), exact(case["kk"])
            res, refv, what = kobj / qa, kv / ra, f"{kobj!r} / {qa!r}"
        elif o == "**":
            n = case["n"]
            if shape == "u":
                res, refv, what = qa.unit ** n, cat.scale(case["a"]["u"]) ** n, f"{qa.unit} ** {n}"
            else:
                if ra == 0 and n < 0:
                    return
                res, refv, what = qa ** n, ra ** n, f"{qa!r} ** {n}"
        else:
            qb = _q(case["b"])
            rb = F(qb.amount) * cat.scale(case["b"]["u"])
            if shape == "qu":
                rb = cat.scale(case["b"]["u"])
                right, rs = qb.unit, str(qb.unit)
            else:
                right, rs = qb, repr(qb)
            if shape == "uq":
                ra = cat.scale(case["a"]["u"])
                left, ls = qa.unit, str(qa.unit)
            else:
                left, ls = qa, repr(qa)
            if o == "*":
                res, refv, what = left * right, ra * rb, f"{ls} * {rs}"
            else:
                if rb == 0:
                    return
                res, refv, what = left / right, ra / rb, f"{ls} / {rs}"
        if not isinstance(res, Quantity):
            ctx.viol(f"prod/{o}/notqty", f"{what} returned {res!r}")
            return
        rsym = res.unit.symbol
        if rsym not in cat.ALL_UNITS or cat.ALL_UNITS[rsym][0] not in QT:
            ctx.viol(f"prod/{o}/restype", f"{what} has unit {rsym} ({type(res).__name__})")
            return
        ex = refv / cat.scale(rsym)
        _expect(ctx, what, res, ex, rsym, mode, f"prod{o}{shape}", cat.cls_of(cat.ALL_UNITS[rsym][0]))

"""C16 — rejected declarations leave no trace."""
import datetime
import itertools
from fractions import Fraction

from .. import env  # noqa: F401
from hypothesis import strategies as st

from quantity import Quantity, QuantityError, UndefinedResultError, Unit
from quantity.money import ExchangeRate, Money, MoneyConverter

from .. import decl, gen, iso
from ..model import F, exact, fs, mknum
from ..runner import Part
from . import c11

PID = "C16"
TECHNIQUE = ("fault injection into generated declaration histories (any subset of steps invalid, at every position): "
             "differential of the observable directory state before/after each rejected step, twin run of the same "
             "history without the invalid steps, and re-declaration of the rejected symbol")
RULE = ("declaration part: histories of C15's generator with ~35% invalid steps (duplicate dimension with/without "
        "explicit reference symbol, duplicate/empty/non-str symbol, wrong definition type/dimension, derive_unit_from "
        "misuse); after each rejection the observation (Unit(sym) for every symbol ever mentioned incl. the attempted "
        "and the predictable generated one, units() of every type and of the base class, parse of '1 sym', registry "
        "sizes) must equal the one before; the history with the invalid steps deleted must give the same structure and "
        "the same results for a battery of operations; the attempted symbol is then declared validly. Currency part: "
        "invalid Money.new_unit / register_currency calls. Converter part: update calls that fail on the validity, on "
        "another kind of validity, or on an invalid rate spec at position k of n, followed by the same look-ups as a "
        "twin converter that never saw the failed call. Non-trivial = rejected step followed by a valid step or "
        "look-up that reuses the symbol/dimension/converter; distinct by digest")
FLOORS = {"decl/nontrivial": (0.3, "decl/histories")}

_ctr = itertools.count(1)


def parts(tier):
    big = tier == "thorough"
    return [Part("decl", "hyp", strategy=decl.histories(fault_rate=35, max_steps=26 if big else 14), n=200000 if big else 8000, chunk=800),
            Part("currency", "hyp", strategy=gen_currency(), n=40000 if big else 4000),
            Part("converter", "hyp", strategy=gen_converter(), n=100000 if big else 8000)]


# ---------------------------------------------------------------------------
# currencies

@st.composite
def gen_currency(draw):
    what = draw(st.sampled_from(["unknown_code", "minor_negative", "minor_nonint", "sf_nonpositive", "sf_not_divisor",
                                 "sf_garbage", "sf_mismatch", "symbol_empty", "symbol_nonstr", "dup_symbol"]))
    return {"k": "currency", "what": what, "n": draw(st.integers(0, 5)),
            "code": draw(st.text(alphabet="ABCDEFGHIJKLMNOPQRSTUVWXYZ", min_size=3, max_size=3)
                         .filter(lambda c: c not in iso.TABLE))}


def _currency_case(case, ctx):
    n = next(_ctr)
    sym = f"R{n}X"
    what = case["what"]
    ctx.label(f"currency/{what}")
    calls = {
        "unknown_code": (lambda: Money.register_currency(case["code"]), case["code"]),
        "minor_negative": (lambda: Money.new_unit(sym, "bad", minor_unit=-1 - case["n"]), sym),
        "minor_nonint": (lambda: Money.new_unit(sym, "bad", minor_unit=1.5), sym),
        "sf_nonpositive": (lambda: Money.new_unit(sym, "bad", smallest_fraction=[0, "-0.01", "0.00"][case["n"] % 3]), sym),
        "sf_not_divisor": (lambda: Money.new_unit(sym, "bad", smallest_fraction=["0.03", "0.7", "3", "1"][case["n"] % 4]),
                           sym),
        "sf_garbage": (lambda: Money.new_unit(sym, "bad", smallest_fraction=["abc", "", "1/0"][case["n"] % 3]), sym),
        "sf_mismatch": (lambda: Money.new_unit(sym, "bad", minor_unit=2, smallest_fraction=["0.001", "0.1", "1"][case["n"] % 3]),
                        sym),
        "symbol_empty": (lambda: Money.new_unit("", "bad"), None),
        "symbol_nonstr": (lambda: Money.new_unit(5, "bad"), None),
        "dup_symbol": (lambda: Money.new_unit("EUR", "bad", minor_unit=3), None),
    }
    eur = Money.register_currency("EUR")
    fn, attempted = calls[what]

    def obs():
        o = {"n_units": len(Money.units()), "len": len(Money), "eur": id(Money.get_unit_by_symbol("EUR")),
             "eur_q": str(eur.quantum)}
        o.update(decl.registry_sizes())
        if attempted:
            try:
                o["sym"] = id(Unit(attempted))
            except ValueError:
                o["sym"] = "unknown"
            o["in"] = attempted in Money
            try:
                o["parse"] = type(Quantity(f"1 {attempted}")).__name__
            except QuantityError:
                o["parse"] = "QuantityError"
        return o
    before = obs()
    try:
        res = fn()
    except (ValueError, TypeError, ArithmeticError):
        pass
    except Exception as exc:  # noqa: BLE001
        ctx.viol(f"currency/{what}/{type(exc).__name__}", f"invalid currency declaration ({what}) raised "
                 f"{type(exc).__name__}: {exc}")
        return
    else:
        ctx.viol(f"currency/{what}/accepted", f"invalid currency declaration ({what}) was accepted: {res!r}")
        return
    after = obs()
    ctx.nontrivial()
    if after != before:
        diff = {k: (before[k], after[k]) for k in after if after[k] != before[k]}
        ctx.viol(f"currency/{what}/trace", f"rejected currency declaration ({what}) left a trace: {diff}")
        return
    if attempted and what != "unknown_code":
        try:
            cur = Money.new_unit(attempted, "now valid", minor_unit=1)
        except Exception as exc:  # noqa: BLE001
            ctx.viol(f"currency/{what}/reuse", f"symbol {attempted!r} could not be declared after the rejected attempt: "
                     f"{type(exc).__name__}: {exc}")
            return
        if F(Money("1.25", cur).amount) != Fraction(12, 10):
            ctx.viol(f"currency/{what}/reuse_value", "re-declared currency rounds wrongly")


# ---------------------------------------------------------------------------
# converter updates

@st.composite
def gen_converter(draw):
    kind = draw(st.sampled_from(c11.KINDS))
    base = draw(st.sampled_from(c11.CUR))
    used = []
    steps = []
    other0 = draw(st.sampled_from([k for k in c11.KINDS if k != kind]))
    badspec0 = [["cur", base], ["dec", "1"], ["int", "1"]]       # identical currencies
    # before anything succeeded: failing calls (possibly with another kind of validity) must not fix the kind
    for _ in range(draw(st.integers(0, 2))):
        good = draw(st.lists(c11._spec(base), min_size=0, max_size=2))
        steps.append({"s": "fail_first", "validity": draw(c11._validity(draw(st.sampled_from([kind, other0, other0])))),
                      "specs": good + [badspec0], "pos": len(good)})
    steps.append({"s": "update", "validity": draw(c11._validity(kind, used)),
                  "specs": draw(st.lists(c11._spec(base), min_size=1, max_size=3))})
    for _ in range(draw(st.integers(1, 6))):
        sel = draw(st.integers(0, 9))
        if sel <= 3:
            steps.append({"s": "update", "validity": draw(c11._validity(kind, used)),
                          "specs": draw(st.lists(c11._spec(base), min_size=1, max_size=3))})
        elif sel <= 5:
            other = draw(st.sampled_from([k for k in c11.KINDS if k != kind]))
            steps.append({"s": "fail_kind", "validity": draw(c11._validity(other)),
                          "specs": draw(st.lists(c11._spec(base), min_size=1, max_size=3))})
        elif sel == 6:
            bad = draw(st.sampled_from([["tuple_int", 2020, 13], ["str", "2020-02-30"], ["int", 0], ["str", "x"],
                                        ["str", "2020-13"], ["float", 2020.5]]))
            steps.append({"s": "fail_validity", "validity": bad,
                          "specs": draw(st.lists(c11._spec(base), min_size=1, max_size=3))})
        else:
            specs = draw(st.lists(c11._spec(base), min_size=1, max_size=4))
            pos = draw(st.integers(0, len(specs)))
            badspec = draw(st.sampled_from([
                [["cur", base], ["dec", "1"], ["int", "1"]],            # identical currencies
                [["cur", "USD" if base != "USD" else "EUR"], ["dec", "0"], ["int", "1"]],       # zero amount
                [["cur", "USD" if base != "USD" else "EUR"], ["dec", "-1"], ["int", "1"]],
                [["cur", "USD" if base != "USD" else "EUR"], ["dec", "1"], ["int", "0"]],       # zero multiple
                [["cur", "USD" if base != "USD" else "EUR"], ["str", "abc"], ["int", "1"]],
                [["code", "QQQ"], ["dec", "1"], ["int", "1"]],           # unknown code
                [["code", draw(st.sampled_from(_UNREG))], ["dec", "1"], ["int", "1"]],   # valid ISO code, not registered
                [["code", draw(st.sampled_from(_UNREG))], ["dec", "0"], ["int", "1"]],   # ... and an invalid amount
                [["cur", "USD" if base != "USD" else "EUR"], ["dec", "1"], ["frac", "1/3"]],
            ]))
            specs.insert(pos, badspec)
            steps.append({"s": "fail_spec", "validity": draw(c11._validity(kind, used)), "specs": specs, "pos": pos})
    probes = [[draw(st.sampled_from(c11.CUR)), draw(st.sampled_from(c11.CUR)),
               draw(st.one_of(st.none(), c11._date(), st.sampled_from(used) if used else c11._date()))]
              for _ in range(draw(st.integers(3, 8)))]
    return {"k": "converter", "kind": kind, "base": base, "dflt": draw(c11._date()), "steps": steps, "probes": probes}


# ISO codes that no part of this check registers: an ExchangeRate accepts code strings of *registered* currencies only
_UNREG = ["SEK", "NOK", "DKK", "PLN", "CZK", "HUF", "INR", "BRL", "MXN", "ZAR"]


def _mk_specs_raw(specs):
    out = []
    for cs, term, mult in specs:
        c = Money.register_currency(cs[1]) if cs[0] == "cur" else cs[1]
        if cs[0] == "code" and cs[1] in iso.TABLE and cs[1] not in _UNREG:
            Money.register_currency(cs[1])       # an ISO code string refers to a registered currency
        t = term[1] if term[0] == "str" else mknum(term)
        out.append((c, t, mknum(mult)))
    return out


def _probe(conv, probes):
    out = [("registered", tuple(c for c in _UNREG if c in Money), len(Money.units()))]
    for a, b, d in probes:
        ca, cb = Money.register_currency(a), Money.register_currency(b)
        dd = None if d is None else datetime.date.fromisoformat(d)
        try:
            r = conv.get_rate(ca, cb, dd)
            out.append(None if r is None else repr(r))
        except Exception as exc:  # noqa: BLE001
            out.append(f"raises {type(exc).__name__}")
    return out


def _converter_case(case, ctx):
    for code in c11.CUR:
        Money.register_currency(code)          # the harness's own registrations happen before any observation
    base = Money.register_currency(case["base"])
    dflt = datetime.date.fromisoformat(case["dflt"])
    real = MoneyConverter(base, get_dflt_effective_date=lambda: dflt)
    twin = MoneyConverter(base, get_dflt_effective_date=lambda: dflt)
    failed = 0
    ok_after_fail = False
    for i, stp in enumerate(case["steps"]):
        v = c11._mk_validity(stp["validity"])
        specs = _mk_specs_raw(stp["specs"])
        ctx.label(f"step/{stp['s']}")
        if stp["s"] == "update":
            try:
                real.update(v, specs)
                twin.update(v, _mk_specs_raw(stp["specs"]))
            except Exception as exc:  # noqa: BLE001
                ctx.viol(f"converter/valid_rejected/{type(exc).__name__}", f"valid update #{i} raised "
                         f"{type(exc).__name__}: {exc}")
                return
            if failed:
                ok_after_fail = True
            continue
        before = _probe(real, case["probes"])
        try:
            real.update(v, specs)
        except (ValueError, TypeError, ArithmeticError):
            pass
        except Exception as exc:  # noqa: BLE001
            ctx.viol(f"converter/{stp['s']}/{type(exc).__name__}", f"invalid update #{i} raised {type(exc).__name__}: {exc}")
            return
        else:
            ctx.viol(f"converter/{stp['s']}/accepted", f"invalid update #{i} ({stp}) was accepted")
            return
        failed += 1
        after = _probe(real, case["probes"])
        if after != before:
            ctx.viol(f"converter/{stp['s']}/trace", f"rejected update #{i} ({stp['s']}: validity {v!r}, {len(specs)} specs"
                     f"{', invalid at position ' + str(stp['pos']) if 'pos' in stp else ''}) changed look-ups: "
                     f"{[(p, b, a) for p, b, a in zip(case['probes'], before, after) if a != b][:3]}")
            return
    a, b = _probe(real, case["probes"]), _probe(twin, case["probes"])
    ctx.tick(len(a))
    if a != b:
        ctx.viol("converter/twin", f"after {failed} rejected update(s) the converter answers differently from a twin that "
                 f"never saw them: {[(p, x, y) for p, x, y in zip(case['probes'], a, b) if x != y][:3]}")
    if failed and ok_after_fail:
        ctx.nontrivial()
    elif failed:
        ctx.nontrivial(any(x is not None and not str(x).startswith("raises") for x in a))


# ---------------------------------------------------------------------------

def battery(w):
    """Structure + results of a fixed battery of operations, in index terms."""
    out = []
    for ti, cls in enumerate(w.types):
        out.append(("type", ti, len(cls.units()), cls.ref_unit is not None, None if cls.quantum is None else fs(F(cls.quantum))))
    n = len(w.units)
    idx = {id(u): i for i, u in enumerate(w.units)}
    for i in range(n):
        u = w.units[i]
        out.append(("unit", i, idx.get(id(Unit(w.syms[i])), -1), w.types.index(u.qty_cls)))
    pairs = [(i, j) for i in range(min(n, 7)) for j in range(min(n, 7))]
    for i, j in pairs:
        for op in ("*", "/"):
            a, b = Quantity(6, w.units[i]), Quantity(3, w.units[j])
            if op == "/" and F(b.amount) == 0:
                continue
            try:
                r = a * b if op == "*" else a / b
            except UndefinedResultError:
                out.append((i, op, j, "undefined"))
            except QuantityError as exc:
                out.append((i, op, j, type(exc).__name__))
            except ZeroDivisionError:
                out.append((i, op, j, "zerodiv"))
            else:
                if isinstance(r, Quantity):
                    out.append((i, op, j, w.types.index(type(r)) if type(r) in w.types else -1,
                                idx.get(id(r.unit), -1), fs(F(r.amount))))
                else:
                    out.append((i, op, j, "number", fs(F(r))))
    return out


def run_case(case, ctx):
    k = case["k"]
    if k == "currency":
        return _currency_case(case, ctx)
    if k == "converter":
        return _converter_case(case, ctx)

    def v16(sig, msg):
        ctx.viol(sig, msg)

    w = decl.run_history(case, ctx, lambda s, m: None, v16, coherence_every_step=False)
    st_ = getattr(w, "stats", None)
    if not st_:
        return
    if st_["rejected"]:
        # twin run: the same history with the invalid steps deleted
        twin_case = {"k": "decl", "steps": [d for d in case["steps"] if d["d"] != "bad"], "reuse": False}
        errs = []
        w2 = decl.run_history(twin_case, ctx, lambda s, m: errs.append((s, m)), lambda s, m: None,
                              coherence_every_step=False)
        if errs or not getattr(w2, "stats", None):
            return      # C15's business
        # compare only what the generated steps declared (symbol re-use adds units at the end of w)
        nt, nu = len(w2.types), len(w2.units)

        class View:
            pass
        v = View()
        v.types, v.units, v.syms = w.types[:nt], w.units[:nu], w.syms[:nu]
        try:
            b1 = [x for x in battery(v) if x[0] != "type"] + [("type", i, None) for i in range(nt)]
            b2 = [x for x in battery(w2) if x[0] != "type"] + [("type", i, None) for i in range(nt)]
        except Exception as exc:  # noqa: BLE001
            ctx.viol(f"twin/battery/{type(exc).__name__}", f"battery raised {type(exc).__name__}: {exc}")
            return
        ctx.tick(len(b1))
        if b1 != b2:
            diff = [(x, y) for x, y in zip(b1, b2) if x != y][:3]
            ctx.viol("twin/results", f"history with {st_['rejected']} rejected step(s) behaves differently from the same "
                     f"history without them: {diff}")
        last_bad = max(i for i, d in enumerate(case["steps"]) if d["d"] == "bad")
        if last_bad < len(case["steps"]) - 1 or st_["reused"]:
            ctx.nontrivial()
            ctx.label("nontrivial")

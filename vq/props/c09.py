"""C09 — exchange rates: normal form, accuracy, inversion and triangulation."""
import math
from fractions import Fraction

from .. import env  # noqa: F401
from hypothesis import strategies as st

from decimalfp import Decimal

from quantity.money import Currency, ExchangeRate, Money

from .. import gen
from ..model import F, exact, fs, is_dec_repr, mknum
from ..runner import Part

PID = "C09"
TECHNIQUE = ("Hypothesis generated-input search (multiples and term amounts of every kind, biased to powers of ten, "
             "9.99..9 values and the validity limits) against the exact rational rate")
RULE = ("cases = construction (currency pair, unit multiple as int/Decimal with trailing zeros/Fraction/float/str: powers "
        "of ten and other integers; term amount across 1e-6..1e6 as Decimal/Fraction/float/str/decimal.Decimal, biased "
        "to exact powers of ten, 9.99..9 just below them and the 1e-6 limit), invalid inputs (identical currencies, zero/"
        "negative/non-integral multiples, non-positive/too small/NaN/garbage amounts), and pairs of rates for every "
        "sharing pattern under * and /. Oracle: true rate = term/multiple as Fraction; stored normal form read from "
        "repr(); every valid rate is inverted, the inverse inverted again and the rate inverted a second time, each "
        "against the reciprocal of the rate actually inverted. Non-trivial = multiple not a power of ten, term magnitude < -1, exact power of ten or limit value, a "
        "rejection, or a triangulation; distinct by digest")
FLOORS = {"build/nonpow10_multiple": (0.2, "build/cases")}

CUR = ["EUR", "USD", "JPY", "TND", "CHF", "GBP"]
HALF = Fraction(1, 2 * 10 ** 6)


def _cur(code):
    return Money.register_currency(code)


def stored(rate):
    """(multiple, term amount) as shown by repr()."""
    ns = {"ExchangeRate": lambda a, m, b, t: (a, m, b, t), "Currency": lambda s: s,
          "Decimal": lambda v, p=None: Fraction(v) if not isinstance(v, str) else Fraction(v),
          "Fraction": Fraction}
    try:
        a, m, b, t = eval(repr(rate), ns)  # noqa: S307 - controlled namespace
        return a, Fraction(m), b, Fraction(t)
    except Exception:  # noqa: BLE001
        # repr() is not part of the property: fall back to the attributes behind it
        try:
            return (rate.unit_currency.symbol, F(rate._unit_multiple), rate.term_currency.symbol,
                    F(rate._term_amount))
        except AttributeError:
            raise RuntimeError("harness: cannot observe the stored multiple / term amount of an ExchangeRate")


@st.composite
def _multiple(draw):
    v = gen.pick(draw, (4, st.sampled_from([1, 1, 10, 100, 1000, 10 ** 6, 10 ** 9])),
                 (4, st.sampled_from([2, 3, 5, 7, 9, 20, 25, 50, 99, 101, 999, 1024, 5000, 123456])),
                 (2, st.integers(2, 10 ** 6)))
    kind = draw(st.sampled_from(["int", "int", "dec", "decp", "frac", "float", "str"]))
    if kind == "str":      # documented: "a string, as long as it is convertable to an Integral"
        return ["str", draw(st.sampled_from([str(v), f" {v}", f"{v}.0", f"+{v}"]))]
    return gen.encode_as(Fraction(v), kind, draw)


@st.composite
def _term(draw, lo=-6, hi=6):
    sel = draw(st.integers(0, 9))
    if sel <= 2:
        v = Fraction(10) ** draw(st.integers(lo, hi))
    elif sel <= 4:
        e = draw(st.integers(lo + 1, hi))
        nd = draw(st.integers(1, 12))
        v = Fraction(10) ** e - Fraction(10) ** (e - nd)           # 9.99..9 x 10^(e-1)
        if v < Fraction(1, 10 ** 6):
            v = Fraction(1, 10 ** 6)
    elif sel == 5:
        v = Fraction(1, 10 ** 6) + Fraction(draw(st.integers(0, 5)), 10 ** 7)
    else:
        e = draw(st.integers(lo, hi))
        v = Fraction(draw(st.integers(1, 10 ** 7)), 10 ** draw(st.integers(0, 7))) * Fraction(10) ** e
        if draw(st.integers(0, 4)) == 0:
            v = v / draw(st.sampled_from([3, 7, 9, 11]))
        v = min(max(v, Fraction(1, 10 ** 6)), Fraction(10 ** 7))
    kinds = ["frac", "str"]
    if is_dec_repr(v):
        kinds += ["dec", "dec", "decp", "sdec", "float"]
    else:
        kinds += ["float"]
    kind = draw(st.sampled_from(kinds))
    if kind == "float":
        f = float(v)
        while Fraction(*f.as_integer_ratio()) < Fraction(1, 10 ** 6):     # exact binary value counts
            f = math.nextafter(f, 1.0)
        return ["float", f.hex()]
    return gen.encode_as(v, kind, draw)


@st.composite
def gen_build(draw):
    cs = draw(st.permutations(CUR))[:2]
    return {"k": "build", "cs": cs, "mult": draw(_multiple()), "term": draw(_term()),
            "codes": draw(st.sampled_from([[False, False], [True, False], [False, True], [True, True]]))}


@st.composite
def gen_invalid(draw):
    cs = draw(st.permutations(CUR))[:2]
    why = draw(st.sampled_from(["same_currency", "mult_zero", "mult_negative", "mult_fraction", "mult_nonint",
                                "term_zero", "term_negative", "term_small", "term_nan", "term_inf", "term_garbage",
                                "mult_garbage", "cur_unknown", "cur_type"]))
    mult, term = draw(_multiple()), draw(_term())
    if why == "same_currency":
        cs = [cs[0], cs[0]]
    elif why == "mult_zero":
        mult = draw(st.sampled_from([["int", "0"], ["dec", "0"], ["float", (0.0).hex()], ["str", "0"]]))
    elif why == "mult_negative":
        mult = gen.encode_as(Fraction(-draw(st.integers(1, 1000))), draw(st.sampled_from(["int", "dec", "frac"])))
    elif why == "mult_fraction":
        mult = ["frac", draw(st.sampled_from(["1/3", "10/3", "1/2", "7/2"]))]
    elif why == "mult_nonint":
        mult = draw(st.sampled_from([["dec", "3/2"], ["float", (2.5).hex()], ["str", "10.5"], ["dec", "1/10"]]))
    elif why == "term_zero":
        term = draw(st.sampled_from([["int", "0"], ["dec", "0"], ["frac", "0"], ["float", (0.0).hex()], ["str", "0"],
                                     ["sdec", "0.000"]]))
    elif why == "term_negative":
        term = gen.encode_as(-draw(gen.fractions(positive=True)), draw(st.sampled_from(["frac", "str"])))
    elif why == "term_small":
        v = Fraction(draw(st.integers(1, 999999)), 10 ** draw(st.integers(12, 15)))
        term = gen.encode_as(v, draw(st.sampled_from(["dec", "frac", "str", "sdec"])), draw)
    elif why == "term_nan":
        term = ["float", "nan"]
    elif why == "term_inf":
        term = ["float", draw(st.sampled_from(["inf", "-inf"]))]
    elif why == "term_garbage":
        term = ["str", draw(st.sampled_from(["abc", "", "1,5", "1.2.3", "--1", "1/0", "1 2"]))]
    elif why == "mult_garbage":
        mult = ["str", draw(st.sampled_from(["abc", "", "1,5", "ten"]))]
    return {"k": "invalid", "why": why, "cs": cs, "mult": mult, "term": term,
            "codes": draw(st.sampled_from([[False, False], [True, False], [False, True], [True, True]]))}


@st.composite
def gen_tri(draw):
    a, b, c, d = draw(st.permutations(CUR))[:4]
    pattern = draw(st.sampled_from(["a.unit=b.term", "a.term=b.unit", "same_unit", "same_term", "none"]))
    op = draw(st.sampled_from(["*", "/"]))
    pa = [a, b]
    if pattern == "a.unit=b.term":
        pb = [c, a]
    elif pattern == "a.term=b.unit":
        pb = [b, c]
    elif pattern == "same_unit":
        pb = [a, c]
    elif pattern == "same_term":
        pb = [c, b]
    else:
        pb = [c, d]
    return {"k": "tri", "op": op, "pattern": pattern,
            "a": {"cs": pa, "mult": draw(_multiple()), "term": draw(_term(-3, 3))},
            "b": {"cs": pb, "mult": draw(_multiple()), "term": draw(_term(-3, 3))}}


def parts(tier):
    big = tier == "thorough"
    return [Part("build", "hyp", strategy=gen_build(), n=600000 if big else 40000),
            Part("invalid", "hyp", strategy=gen_invalid(), n=60000 if big else 5000),
            Part("tri", "hyp", strategy=gen_tri(), n=300000 if big else 20000)]


def _num(enc):
    if enc[0] == "float" and enc[1] in ("nan", "inf", "-inf"):
        return float(enc[1])
    return mknum(enc)


def check_normal_form(ctx, tag, rate, true_rate, what):
    """Normal form + accuracy of one ExchangeRate against the exact rate."""
    a, m, b, t = stored(rate)
    k = 0
    mm = m
    while mm > 1 and mm % 10 == 0:
        mm /= 10
        k += 1
    if m < 1 or mm != 1:
        ctx.viol(f"{tag}/multiple", f"{what} = {rate!r}: unit multiple {fs(m)} is not a power of ten >= 1")
        return None
    if t <= 0 or (t * 10 ** 6).denominator != 1:
        ctx.viol(f"{tag}/term_digits", f"{what} = {rate!r}: term amount {fs(t)} not positive with <= 6 fractional digits")
        return None
    if t < Fraction(1, 10):
        ctx.viol(f"{tag}/magnitude", f"{what} = {rate!r}: term amount {fs(t)} has magnitude below -1")
    if abs(t - true_rate * m) > HALF:
        ctx.viol(f"{tag}/accuracy", f"{what} = {rate!r}: term amount {fs(t)} differs from true rate x multiple "
                 f"{fs(true_rate * m)} by more than 0.0000005")
        return None
    if F(rate.rate) != t / m:
        ctx.viol(f"{tag}/rate", f"{what}: .rate = {rate.rate!r}, stored {fs(t)}/{fs(m)}")
    if F(rate.rate) * F(rate.inverse_rate) != 1:
        ctx.viol(f"{tag}/inverse_rate", f"{what}: rate * inverse_rate = {F(rate.rate) * F(rate.inverse_rate)}")
    if isinstance(rate.rate, float) or isinstance(rate.inverse_rate, float):
        ctx.viol(f"{tag}/float", f"{what}: float rate")
    q = rate.quotation
    iq = rate.inverse_quotation
    if q[0] is not rate.unit_currency or q[1] is not rate.term_currency or F(q[2]) != t / m or \
            iq[0] is not rate.term_currency or iq[1] is not rate.unit_currency or F(iq[2]) != m / t:
        ctx.viol(f"{tag}/quotation", f"{what}: quotation {q!r} / {iq!r}")
    return t / m


def _build(d, codes=(False, False)):
    c1, c2 = _cur(d["cs"][0]), _cur(d["cs"][1])
    a1 = d["cs"][0] if codes[0] else c1
    a2 = d["cs"][1] if codes[1] else c2
    return c1, c2, ExchangeRate(a1, _num(d["mult"]), a2, _num(d["term"]))


def run_case(case, ctx):
    k = case["k"]
    ctx.label("cases")
    if k == "build":
        mv, tv = exact(case["mult"]), exact(case["term"])
        true = tv / mv
        what = f"ExchangeRate({case['cs'][0]}, {_num(case['mult'])!r}, {case['cs'][1]}, {_num(case['term'])!r})"
        mm = mv
        while mm % 10 == 0:
            mm /= 10
        if mm != 1:
            ctx.label("nonpow10_multiple")
            ctx.nontrivial()
        if tv < Fraction(1, 10) or is_pow10(tv) or tv <= Fraction(11, 10 ** 7):
            ctx.nontrivial()
        ctx.label(f"multkind/{case['mult'][0]}")
        ctx.label(f"termkind/{case['term'][0]}")
        try:
            c1, c2, r = _build(case, case["codes"])
        except Exception as exc:  # noqa: BLE001
            ctx.viol(f"build/raises/{type(exc).__name__}", f"{what} raised {type(exc).__name__}: {exc}")
            return
        if r.unit_currency is not c1 or r.term_currency is not c2:
            ctx.viol("build/currencies", f"{what} has currencies {r.unit_currency}/{r.term_currency}")
            return
        sr = check_normal_form(ctx, "build", r, true, what)
        if sr is None:
            return
        # inversion
        try:
            inv = r.inverted()
        except ValueError:
            if 1 / sr >= Fraction(1, 10 ** 6):
                ctx.viol("inverted/raises", f"{what}.inverted() raised ValueError although 1/rate = {fs(1 / sr)}")
            else:
                ctx.label("inverse_out_of_range")
            return
        except Exception as exc:  # noqa: BLE001
            ctx.viol(f"inverted/raises/{type(exc).__name__}", f"{what}.inverted() raised {type(exc).__name__}: {exc}")
            return
        ctx.tick()
        if inv.unit_currency is not c2 or inv.term_currency is not c1:
            ctx.viol("inverted/currencies", f"{what}.inverted() = {inv!r}: currencies not swapped")
            return
        si = check_normal_form(ctx, "inverted", inv, 1 / sr, f"{what}.inverted()")
        if si is None:
            return
        # every rate inverts to the reciprocal of ITS OWN rate - also one that came out of an inversion (the
        # 6-digit rounding does not round-trip, so this is not the original), and again for the same object
        for rr, rate, w in ((inv, si, f"{what}.inverted().inverted()"), (r, sr, f"{what}.inverted() [second call]")):
            try:
                again = rr.inverted()
            except ValueError:
                if 1 / rate >= Fraction(1, 10 ** 6):
                    ctx.viol("inverted2/raises", f"{w} raised ValueError although 1/rate = {fs(1 / rate)}")
                continue
            except Exception as exc:  # noqa: BLE001
                ctx.viol(f"inverted2/raises/{type(exc).__name__}", f"{w} raised {type(exc).__name__}: {exc}")
                continue
            ctx.tick()
            check_normal_form(ctx, "inverted2", again, 1 / rate, w)
    elif k == "invalid":
        ctx.nontrivial()
        ctx.label(f"why/{case['why']}")
        try:
            if case["why"] == "cur_unknown":
                r = ExchangeRate("QQQ", _num(case["mult"]), _cur(case["cs"][1]), _num(case["term"]))
            elif case["why"] == "cur_type":
                r = ExchangeRate(_cur(case["cs"][0]), _num(case["mult"]), 42, _num(case["term"]))
            else:
                _, _, r = _build(case, case.get("codes", (False, False)))
        except (ValueError, TypeError, OverflowError, ArithmeticError):
            return
        except Exception as exc:  # noqa: BLE001
            ctx.viol(f"invalid/{case['why']}/{type(exc).__name__}", f"invalid input ({case['why']}) raised "
                     f"{type(exc).__name__}: {exc}")
            return
        ctx.viol(f"invalid/{case['why']}/accepted", f"invalid input ({case['why']}: multiple {_num(case['mult'])!r}, "
                 f"term {_num(case['term'])!r}, currencies {case['cs']}) was accepted: {r!r}")
    elif k == "tri":
        ctx.nontrivial()
        try:
            a1, a2, ra = _build(case["a"])
            b1, b2, rb = _build(case["b"])
        except Exception as exc:  # noqa: BLE001
            ctx.viol(f"build/raises/{type(exc).__name__}", f"building {case['a']} / {case['b']} raised "
                     f"{type(exc).__name__}: {exc}")
            return
        sa, sb = F(ra.rate), F(rb.rate)
        op, pat = case["op"], case["pattern"]
        ctx.label(f"pattern/{op}/{pat}")
        exp = None      # (unit, term, value)
        if op == "*":
            if pat == "a.unit=b.term":
                exp = (b1, a2, sa * sb)
            elif pat == "a.term=b.unit":
                exp = (a1, b2, sa * sb)
        else:
            if pat == "same_unit":
                exp = (b2, a2, sa / sb)
            elif pat == "same_term":
                exp = (a1, b1, sa / sb)
        what = f"{ra!r} {op} {rb!r}"
        try:
            res = ra * rb if op == "*" else ra / rb
        except ValueError:
            if exp is not None and exp[2] >= Fraction(1, 10 ** 6):
                ctx.viol(f"tri/{op}/{pat}/rejected", f"{what} raised ValueError; expected the rate {exp[0]}->{exp[1]}")
            return
        except Exception as exc:  # noqa: BLE001
            ctx.viol(f"tri/{op}/{pat}/{type(exc).__name__}", f"{what} raised {type(exc).__name__}: {exc}")
            return
        if exp is None:
            ctx.viol(f"tri/{op}/{pat}/accepted", f"{what} returned {res!r}; the operands do not share a currency in a "
                     "position this operator accepts, ValueError expected")
            return
        if not isinstance(res, ExchangeRate) or res.unit_currency is not exp[0] or res.term_currency is not exp[1]:
            ctx.viol(f"tri/{op}/{pat}/direction", f"{what} = {res!r}; expected a rate {exp[0]} -> {exp[1]}")
            return
        check_normal_form(ctx, f"tri/{op}", res, exp[2], what)


def is_pow10(v):
    if v <= 0:
        return False
    while v >= 10:
        v /= 10
    while v < 1:
        v *= 10
    return v == 1

"""C04 — equality and ordering agree with exact reference values."""
import operator
from fractions import Fraction

from .. import env  # noqa: F401
from hypothesis import strategies as st

from quantity import Quantity
import quantity.predefined as pre  # noqa: F401

from .. import cat, gen, universe
from ..model import F, dec_places, fs, is_dec_repr, mknum
from ..runner import Part

PID = "C04"
TECHNIQUE = ("Hypothesis generated-input search (amounts constructed from reference values so that equal-across-units "
             "and near-tie cases are frequent) + exhaustive unit-pair enumeration, against Fraction comparison of "
             "reference values")
RULE = ("quantities of one linear type (predefined + lab, incl. quantized) in independently drawn units, amounts built as "
        "reference_value / scale(unit) with reference values equal, differing by 10^-k relative (k up to 40) or random, "
        "held as Decimal or Fraction; lists of up to 12 for sorting; all ordered unit pairs of every type enumerated for "
        "unit comparison. Oracle: the same operator on the exact reference values (scales from the hand-written table). "
        "Non-trivial = operands in different units; the share 'equal or within 1e-20 relative' is reported (floor 20%). "
        "Distinct by digest")
FLOORS = {"cmp/close": (0.20, "cmp/cases")}

OPS = {"<": operator.lt, "<=": operator.le, ">": operator.gt, ">=": operator.ge, "==": operator.eq, "!=": operator.ne}
LIN = cat.LINEAR_TYPES


def _enc_amount(draw, amt):
    if is_dec_repr(amt) and dec_places(amt) < 200:
        return gen.encode_as(amt, draw(st.sampled_from(["dec", "frac", "decp"])), draw)
    return ["frac", fs(amt)]


@st.composite
def _refs(draw, t, n):
    """n reference values, clustered."""
    Q = cat.ALL_QUANTUM.get(t)
    if Q is not None:
        base = draw(st.integers(-10 ** 6, 10 ** 6))
        out = []
        for _ in range(n):
            d = gen.pick(draw, (4, st.just(0)), (3, st.sampled_from([-1, 1])), (3, st.integers(-1000, 1000)))
            out.append((base + d) * Q)
        return out
    base = draw(gen.fractions())
    out = []
    for _ in range(n):
        sel = draw(st.integers(0, 9))
        if sel <= 3:
            out.append(base)
        elif sel <= 6:
            eps = Fraction(draw(st.sampled_from([-1, 1])), 10 ** draw(st.integers(1, 40)))
            out.append(base * (1 + eps) if base != 0 else eps)
        else:
            out.append(draw(gen.fractions()))
    return out


@st.composite
def gen_cmp(draw):
    t = draw(st.sampled_from(LIN))
    us = cat.units_of(t)
    n = gen.pick(draw, (5, st.just(2)), (3, st.just(3)), (2, st.integers(4, 12)))
    refs = draw(_refs(t, n))
    units = [draw(st.sampled_from(us)) for _ in range(n)]
    qs = []
    for r, u in zip(refs, units):
        qs.append({"u": u, "amt": _enc_amount(draw, r / cat.scale(u))})
    # optionally evaluate unit quotients/products first: comparisons must not depend on earlier operations
    return {"k": "cmp", "t": t, "qs": qs, "prime": draw(st.sampled_from([None, None, "div", "mul", "conv"]))}


def enum_unitpairs(shard, nshards):
    i = 0
    for t in LIN:
        us = cat.units_of(t)
        for u in us:
            for v in us:
                i += 1
                if i % nshards == shard:
                    yield {"k": "units", "u": u, "v": v}


def parts(tier):
    big = tier == "thorough"
    return [Part("cmp", "hyp", strategy=gen_cmp(), n=800000 if big else 40000),
            Part("units", "enum", enum=enum_unitpairs, exhaustive=True, shards=16),
            Part("universe", "hyp", strategy=universe.gen_linear_case(n_max=8 if big else 6, max_steps=16 if big else 9), n=200000 if big else 5000, chunk=1500)]


def run_case(case, ctx):
    k = case["k"]
    if k == "units":
        u, v = cat.unit(case["u"]), cat.unit(case["v"])
        su, sv = cat.scale(case["u"]), cat.scale(case["v"])
        if u is not v:
            ctx.nontrivial()
        for name, op in OPS.items():
            ctx.tick()
            try:
                got = op(u, v)
            except Exception as exc:  # noqa: BLE001
                ctx.viol(f"units/{name}/raises/{type(exc).__name__}", f"{u!r} {name} {v!r} raised {type(exc).__name__}: {exc}")
                continue
            if got is not op(su, sv):
                ctx.viol(f"units/{name}", f"{u!r} {name} {v!r} is {got!r}; scales {fs(su)} {name} {fs(sv)} is {op(su, sv)}")
        return
    ctx.label("cases")
    if k == "u_lin":
        built = universe.build_linear_case(case, ctx)
        if built is None:
            return
        qs, refs, mus, _ = built
        syms = [mu.uid for mu in mus]
        scale_of = {id(q.unit): mu.factor for q, mu in zip(qs, mus)}
        # units of generated types compare by their model scale, too
        for (qa, ma) in zip(qs, mus):
            for (qb, mb) in zip(qs, mus):
                for name, op in OPS.items():
                    try:
                        got = op(qa.unit, qb.unit)
                    except Exception as exc:  # noqa: BLE001
                        ctx.viol(f"u_units/{name}/raises/{type(exc).__name__}", f"{qa.unit!r} {name} {qb.unit!r} raised "
                                 f"{type(exc).__name__}: {exc}")
                        continue
                    if got is not op(ma.factor, mb.factor):
                        ctx.viol(f"u_units/{name}", f"{qa.unit!r} {name} {qb.unit!r} [{ma.how},{mb.how}] is {got}; model "
                                 f"scales {fs(ma.factor)} {name} {fs(mb.factor)}")
    else:
        qs = [Quantity(mknum(d["amt"]), cat.unit(d["u"])) for d in case["qs"]]
        refs = [F(q.amount) * cat.scale(d["u"]) for q, d in zip(qs, case["qs"])]
        syms = [d["u"] for d in case["qs"]]
        scale_of = None
    if len(set(syms)) > 1:
        ctx.nontrivial()
        ctx.label("different_units")
    prime = case.get("prime")
    if prime:
        ctx.label(f"primed/{prime}")
        for a in qs[:3]:
            for b in qs[:3]:
                try:
                    if prime == "div":
                        a.unit / b.unit
                        a / b.unit
                    elif prime == "mul":
                        a.unit * b.unit
                    else:
                        a.convert(b.unit)
                except Exception:  # noqa: BLE001  (undefined products etc. are C02's business)
                    pass
    close = False
    n = len(qs)
    for i in range(n):
        for j in range(n):
            if i == j and n > 2:
                continue
            a, b, ra, rb = qs[i], qs[j], refs[i], refs[j]
            if i != j and (ra == rb or abs(ra - rb) <= abs(ra) * Fraction(1, 10 ** 20)):
                close = True
            for name, op in OPS.items():
                ctx.tick()
                try:
                    got = op(a, b)
                except Exception as exc:  # noqa: BLE001
                    ctx.viol(f"cmp/{name}/raises/{type(exc).__name__}", f"{a!r} {name} {b!r} raised "
                             f"{type(exc).__name__}: {exc}")
                    continue
                want = op(ra, rb)
                if got is not want:
                    rel = "eq" if ra == rb else "close" if abs(ra - rb) <= abs(ra) * Fraction(1, 10 ** 9) else "far"
                    ctx.viol(f"cmp/{name}/{rel}", f"{a!r} {name} {b!r} is {got!r}; reference values {fs(ra)} {name} "
                             f"{fs(rb)} is {want}")
    if close:
        ctx.label("close")
    for a in qs:
        if not (a == a) or (a != a) or (a < a) or not (a <= a):
            ctx.viol("cmp/reflexive", f"{a!r} compared with itself")
    if n >= 3:
        ctx.label("sorted")
        try:
            got = sorted(qs)
        except Exception as exc:  # noqa: BLE001
            ctx.viol(f"sorted/raises/{type(exc).__name__}", f"sorted({qs!r}) raised {type(exc).__name__}: {exc}")
            return
        want = [q for _, q in sorted(zip(refs, range(n)), key=lambda p: p[0])]
        want = [qs[i] for i in want]
        if any(g is not w for g, w in zip(got, want)):
            ctx.viol("sorted/order", f"sorted({qs!r}) = {got!r}; stable sort by reference value gives {want!r}")
        mx, mn = max(qs), min(qs)

        def _sc(q):
            return scale_of[id(q.unit)] if scale_of is not None else cat.scale(q.unit.symbol)
        if F(mx.amount) * _sc(mx) != max(refs) or F(mn.amount) * _sc(mn) != min(refs):
            ctx.viol("sorted/minmax", f"max/min of {qs!r} = {mx!r}/{mn!r}")

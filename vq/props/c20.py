"""C20 — predefined catalogue matches SI / international definitions and its docs."""
import os
import re
import subprocess
import sys
from fractions import Fraction

from .. import env
from hypothesis import strategies as st

from quantity import Quantity, Unit
import quantity.predefined as pre
import quantity.si_prefixes as sip

from .. import gen, refdata
from ..model import F, exact, fs, mknum
from ..runner import Part

PID = "C20"
TECHNIQUE = ("exhaustive enumeration of the catalogue, SI prefixes and documentation rows + Hypothesis amounts, "
             "against a hand-written SI / yard-pound / IEC reference table")
LEVEL_TEXT = ("The whole domain is finite and enumerated: 110 + 3 units, every ordered pair per type, 20 prefixes, every documentation row, the regenerated documentation; only the 'any amount' clause is sampled. Oracle: a reference table written by hand from the SI brochure, the 1959 yard-pound agreement and IEC 80000-13.")
RULE = ("enumerated completely: every predefined unit, every ordered unit pair per linear type, every SI prefix, "
        "every row of the tables in quantity.predefined.__doc__, the regenerated tables of "
        "utils/make_predef_units_doc.py, temperature equivalence rows; generated: amounts for pair conversion. "
        "Oracle: vq/refdata.py (hand-written exact Fractions). Non-trivial = unit/pair whose scale (ratio) is not 1, "
        "prefix, or doc row; distinct by (kind, symbols, amount)")

_DOC = pre.__doc__


def _split_cols(marker, line):
    cols = []
    for m in re.finditer(r"=+", marker):
        cols.append(line[m.start():m.end()].strip() if m.end() < len(marker) else line[m.start():].strip())
    return cols


def parse_doc_tables(text):
    """-> {type: {"ref": (name, sym), "rows": {sym: [cells...]}}}"""
    lines = text.splitlines()
    out = {}
    cur = None
    i = 0
    while i < len(lines):
        ln = lines[i]
        if i + 1 < len(lines) and lines[i + 1].startswith("^^^") and ln.strip():
            cur = ln.strip()
            out[cur] = {"ref": None, "rows": {}, "tables": 0}
            i += 2
            continue
        if cur and ln.startswith("Reference unit:"):
            m = re.match(r"Reference unit: (.*?) \('([^']*)'", ln)
            out[cur]["ref"] = (m.group(1), m.group(2))
        if cur and re.match(r"^=+( =+)+\s*$", ln):
            marker = ln
            # header, marker, rows..., marker
            j = i + 1
            header = _split_cols(marker, lines[j])
            j += 2
            rows = []
            while not lines[j].startswith("==="):
                cells = _split_cols(marker, lines[j])
                toks = lines[j].split()
                if len(cells) >= 4 and toks and len(header) >= 4 and header[3].startswith("Equivalent in"):
                    # a long definition may push the last column out of position (layout is not part of the
                    # property): the equivalent is the last blank-separated token of the row, the symbol the first
                    try:
                        parse_equiv(cells[3])
                    except (ValueError, ZeroDivisionError):
                        cells = [toks[0]] + cells[1:3] + [toks[-1]]
                rows.append(cells)
                j += 1
            out[cur]["tables"] += 1
            if out[cur]["tables"] == 1:
                out[cur]["header"] = header
                for r in rows:
                    out[cur]["rows"][r[0]] = r
            else:
                out[cur].setdefault("extra", []).append((header, rows))
            i = j + 1
            continue
        i += 1
    return out


def parse_equiv(cell):
    cell = cell.strip().replace(",", ".")
    return Fraction(cell)


DOC = parse_doc_tables(_DOC)


_GEN_DOC = None


def generated_doc():
    global _GEN_DOC
    if _GEN_DOC is None:
        script = os.path.join(env.REPO, "utils", "make_predef_units_doc.py")
        e = dict(os.environ)
        e["PYTHONPATH"] = os.path.join(env.REPO, "src")
        e["DECIMALFP_FORCE_PYTHON_IMPL"] = "1"
        e["PYTHONIOENCODING"] = "utf-8"
        p = subprocess.run([sys.executable, script], capture_output=True, text=True, env=e, timeout=120)
        _GEN_DOC = (p.returncode, p.stdout, p.stderr)
    return _GEN_DOC


def catalogue_units():
    """{type name: [symbols]} as the library lists them."""
    out = {}
    for t in refdata.DIMS:
        cls = getattr(pre, t)
        out[t] = [u.symbol for u in cls.units()]
    return out


def enum_units(shard, nshards):
    if shard == 0:
        yield {"k": "complete"}
        yield {"k": "doccomplete"}
        yield {"k": "gendoc"}
        for i in range(3):
            yield {"k": "temprow", "i": i}
        for name in refdata.SI_PREFIX_EXP:
            yield {"k": "prefix", "name": name}
        yield {"k": "prefixes_complete"}
    i = 0
    for sym in refdata.UNITS:
        i += 1
        if i % nshards == shard:
            yield {"k": "unit", "sym": sym}
            yield {"k": "docrow", "sym": sym}
    for t in refdata.LINEAR_TYPES:
        us = refdata.units_of(t)
        for u in us:
            for v in us:
                i += 1
                if i % nshards == shard:
                    yield {"k": "pair", "u": u, "v": v, "amt": ["int", "1"]}
                    yield {"k": "pair", "u": u, "v": v, "amt": ["frac", "-7/3"]}


@st.composite
def gen_pair(draw):
    t = draw(st.sampled_from(refdata.LINEAR_TYPES))
    us = refdata.units_of(t)
    return {"k": "pair", "u": draw(st.sampled_from(us)), "v": draw(st.sampled_from(us)),
            "amt": draw(gen.encode(gen.fractions(), ("int", "dec", "decp", "frac")))}


def parts(tier):
    big = tier == "thorough"
    return [
        Part("catalogue", "enum", enum=enum_units, exhaustive=True, shards=16),
        Part("amounts", "hyp", strategy=gen_pair(), n=400000 if big else 30000),
    ]


_NAME_FOR = None


def _const_name_map():
    global _NAME_FOR
    if _NAME_FOR is None:
        _NAME_FOR = {}
        for name in pre.__all__:
            obj = getattr(pre, name)
            if isinstance(obj, Unit):
                _NAME_FOR[obj.symbol] = name
    return _NAME_FOR


def run_case(case, ctx):
    k = case["k"]
    ctx.label(k)
    if k == "unit":
        sym = case["sym"]
        t, scale = refdata.UNITS[sym]
        try:
            u = Unit(sym)
        except ValueError:
            ctx.viol(f"unit/missing/{sym}", f"predefined unit '{sym}' is not registered")
            return
        if scale != 1:
            ctx.nontrivial()
        cls = getattr(pre, t)
        if u.qty_cls is not cls:
            ctx.viol(f"unit/type/{sym}", f"unit '{sym}' belongs to {u.qty_cls.__name__}, expected {t}")
            return
        ref = cls.ref_unit
        if ref is None or ref.symbol != refdata.REF_SYMBOL[t]:
            ctx.viol(f"unit/ref/{t}", f"reference unit of {t} is {ref}, expected {refdata.REF_SYMBOL[t]}")
            return
        if t in refdata.QUANTUM:
            # quantized: probe with an amount that is on both grids
            n = refdata.QUANTUM[t] / scale
            amt = n.denominator * 8
            got = F(Quantity(amt, u).convert(ref).amount)
            exp = amt * scale
        else:
            got = F((1 * u).convert(ref).amount)
            exp = scale
        if got != exp:
            ctx.viol(f"unit/scale/{sym}", f"1 {sym} = {fs(got)} {ref.symbol}, reference says {fs(exp)}")
        if cls.quantum != refdata.QUANTUM.get(t):
            ctx.viol(f"unit/quantum/{t}", f"{t}.quantum = {cls.quantum}, expected {refdata.QUANTUM.get(t)}")
        if sym not in _const_name_map():
            ctx.viol(f"unit/export/{sym}", f"unit '{sym}' is not exported by quantity.predefined.__all__")
    elif k == "complete":
        ctx.nontrivial()
        cat = catalogue_units()
        for t in refdata.DIMS:
            exp = set(refdata.units_of(t)) if t != "Temperature" else set(refdata.TEMP_UNITS)
            got = set(cat[t])
            if got != exp:
                ctx.viol(f"complete/{t}", f"{t}.units() = {sorted(got)}; reference catalogue has {sorted(exp)}")
        # compound units have the product of their components' scales: dimension check of each type
        for t, dims in refdata.DIMS.items():
            cls = getattr(pre, t)
            nd = cls.normalized_definition
            got = {c.__name__: e for c, e in nd}
            if got != dims:
                ctx.viol(f"complete/dims/{t}", f"{t} is defined as {got}, expected {dims}")
    elif k == "pair":
        u, v = Unit(case["u"]), Unit(case["v"])
        su, sv = refdata.UNITS[case["u"]][1], refdata.UNITS[case["v"]][1]
        if su != sv:
            ctx.nontrivial()
        t = refdata.UNITS[case["u"]][0]
        q = Quantity(mknum(case["amt"]), u)
        amt = F(q.amount)          # stored amount (already on the grid for quantized types)
        res = q.convert(v)
        if res.unit is not v:
            ctx.viol(f"pair/unit/{case['u']}->{case['v']}", f"{q!r}.convert({v}) = {res!r}: not expressed in {v}")
            return
        exp = amt * su / sv
        if t in refdata.QUANTUM:
            qv = refdata.QUANTUM[t] / sv
            if (exp / qv).denominator != 1:
                # off-grid: rounding is C05's business; here only closeness
                if abs(F(res.amount) - exp) >= qv:
                    ctx.viol(f"pair/quantized/{case['u']}->{case['v']}",
                             f"{q!r}.convert({v}) = {res.amount}, exact {fs(exp)}")
                return
        if F(res.amount) != exp:
            ctx.viol(f"pair/{case['u']}->{case['v']}",
                     f"{q!r}.convert({v}).amount = {fs(F(res.amount))}, reference ratio gives {fs(exp)}")
    elif k == "prefix":
        ctx.nontrivial()
        name = case["name"]
        p = getattr(sip, name, None)
        if p is None:
            ctx.viol(f"prefix/missing/{name}", f"SI prefix {name} missing")
            return
        e = refdata.SI_PREFIX_EXP[name]
        if F(p.factor) != Fraction(10) ** e:
            ctx.viol(f"prefix/factor/{name}", f"{name}.factor = {p.factor}, expected 10**{e}")
        if p.exp != e or p.abbr != refdata.SI_PREFIX_ABBR[name] or p.name.upper() != name:
            ctx.viol(f"prefix/attrs/{name}", f"{name}: exp={p.exp} abbr={p.abbr!r} name={p.name!r}")
        if sip.SI_PREFIX_MAP.get(p.factor) is not p or p not in sip.SI_PREFIXES:
            ctx.viol(f"prefix/map/{name}", f"{name} not found through SI_PREFIX_MAP/SI_PREFIXES")
        # a prefix scales a unit by exactly its power of ten
        got = F((p * pre.METRE).amount) if hasattr(p, "__mul__") else F((pre.METRE * p).amount)
        if got != Fraction(10) ** e:
            ctx.viol(f"prefix/apply/{name}", f"{name} * METRE has amount {got}")
    elif k == "prefixes_complete":
        ctx.nontrivial()
        names = {p.name.upper() for p in sip.SI_PREFIXES}
        if names != set(refdata.SI_PREFIX_EXP) or len(sip.SI_PREFIXES) != 20 or len(sip.SI_PREFIX_MAP) != 20:
            ctx.viol("prefix/complete", f"SI_PREFIXES = {sorted(names)}")
    elif k == "docrow":
        sym = case["sym"]
        t, scale = refdata.UNITS[sym]
        sec = DOC.get(t)
        if sec is None:
            ctx.viol(f"doc/section/{t}", f"no documentation section for {t}")
            return
        if sym == refdata.REF_SYMBOL[t]:
            if not sec["ref"] or sec["ref"][1] != sym:
                ctx.viol(f"doc/ref/{t}", f"documented reference unit of {t}: {sec['ref']}, expected '{sym}'")
            return
        ctx.nontrivial()
        row = sec["rows"].get(sym)
        if row is None:
            ctx.viol(f"doc/row/{sym}", f"unit '{sym}' has no row in the documentation table of {t}")
            return
        hdr = sec.get("header", [])
        if len(hdr) < 4 or hdr[3] != f"Equivalent in '{refdata.REF_SYMBOL[t]}'":
            ctx.viol(f"doc/header/{t}", f"table header of {t}: {hdr}")
        try:
            doc_equiv = parse_equiv(row[3])
        except (ValueError, ZeroDivisionError):
            ctx.viol(f"doc/cell/{sym}", f"equivalent cell of '{sym}' is not a number: {row[3]!r}")
            return
        u = Unit(sym)
        cls = u.qty_cls
        if t in refdata.QUANTUM:
            n = (refdata.QUANTUM[t] / scale).denominator * 8
            computed = F(Quantity(n, u).convert(cls.ref_unit).amount) / n
        else:
            computed = F((1 * u).convert(cls.ref_unit).amount)
        if doc_equiv != computed:
            ctx.viol(f"doc/equiv/{sym}", f"documentation says 1 {sym} = {row[3]} {refdata.REF_SYMBOL[t]}, "
                     f"computed {fs(computed)}")
        if doc_equiv != scale:
            ctx.viol(f"doc/equiv_ref/{sym}", f"documentation says 1 {sym} = {row[3]}, reference table {fs(scale)}")
    elif k == "doccomplete":
        ctx.nontrivial()
        for t in refdata.LINEAR_TYPES:
            sec = DOC.get(t)
            if sec is None:
                ctx.viol(f"doc/section/{t}", f"no documentation section for {t}")
                continue
            documented = set(sec["rows"])
            cat = {u.symbol for u in getattr(pre, t).units()} - {refdata.REF_SYMBOL[t]}
            if documented != cat:
                ctx.viol(f"doc/complete/{t}", f"documented units of {t} {sorted(documented)} != catalogue {sorted(cat)}")
        sec = DOC.get("Temperature")
        if sec is None or set(sec["rows"]) != set(refdata.TEMP_UNITS):
            ctx.viol("doc/complete/Temperature", "temperature table incomplete")
    elif k == "temprow":
        ctx.nontrivial()
        sec = DOC.get("Temperature")
        if not sec:
            return
        sym = refdata.TEMP_UNITS[case["i"]]
        row = sec["rows"].get(sym)
        if row is None:
            ctx.viol(f"doc/temprow/{sym}", "row missing")
            return
        cell = row[2]
        toks = re.split(r"\s*(=|≅)\s*", cell)
        vals = toks[0::2]
        rels = toks[1::2]
        m0 = re.match(r"^(-?[\d.,]+) (\S+)$", vals[0])
        x0, u0 = parse_equiv(m0.group(1)), m0.group(2)
        for rel, v in zip(rels, vals[1:]):
            m = re.match(r"^(-?[\d.,]+) (\S+)$", v)
            printed = m.group(1).replace(",", ".")
            x, uu = Fraction(printed), m.group(2)
            true = refdata.temp_convert(x0, u0, uu)
            lib = F(Quantity(mknum(["frac", fs(x0)]), Unit(u0)).convert(Unit(uu)).amount)
            if lib != true:
                ctx.viol(f"temp/lib/{u0}->{uu}", f"{x0} {u0} converts to {fs(lib)} {uu}, reference {fs(true)}")
            if rel == "=":
                if x != true:
                    ctx.viol(f"doc/temprow/{sym}/{uu}", f"documentation says {x0} {u0} = {m.group(1)} {uu}; "
                             f"the exact value is {fs(true)}")
            else:
                places = len(printed.split(".")[1]) if "." in printed else 0
                if abs(x - true) > Fraction(1, 2 * 10 ** places):
                    ctx.viol(f"doc/temprow/{sym}/{uu}", f"documentation says {x0} {u0} ≅ {m.group(1)} {uu}; "
                             f"the value is {float(true)}")
        # formula table: spot-check the printed constants
        if case["i"] == 0:
            extra = sec.get("extra", [])
            text = " ".join(" ".join(r) for _, rows in extra for r in rows)
            for const in ("9/5 + 32", "+ 273.15", "- 32) * 5/9", "+ 459.67) * 5/9", "- 273.15", "9/5 - 459.67"):
                if const not in text:
                    ctx.viol(f"doc/tempformula/{const}", f"formula table lacks '{const}'")
    elif k == "gendoc":
        ctx.nontrivial()
        rc, out, err = generated_doc()
        if rc != 0:
            ctx.viol("gendoc/fails", f"utils/make_predef_units_doc.py exits {rc}: {err[-300:]}")
            return
        g = parse_doc_tables(out)
        for t in refdata.LINEAR_TYPES:
            gs, ds = g.get(t), DOC.get(t)
            if gs is None or ds is None:
                ctx.viol(f"gendoc/section/{t}", f"section {t} missing in generated or bundled documentation")
                continue
            if set(gs["rows"]) != set(ds["rows"]):
                ctx.viol(f"gendoc/rows/{t}", f"generated rows {sorted(gs['rows'])} != documented {sorted(ds['rows'])}")
                continue
            for sym, row in gs["rows"].items():
                ctx.tick()
                try:
                    a, b = parse_equiv(row[3]), parse_equiv(ds["rows"][sym][3])
                except (ValueError, ZeroDivisionError):
                    ctx.viol(f"gendoc/cell/{sym}", f"unparsable equivalent for {sym}")
                    continue
                if a != b:
                    ctx.viol(f"gendoc/equiv/{sym}", f"generated doc: 1 {sym} = {row[3]}, bundled doc: {ds['rows'][sym][3]}")
                if a != refdata.UNITS[sym][1]:
                    ctx.viol(f"gendoc/equiv_ref/{sym}", f"generated doc: 1 {sym} = {row[3]}, reference {fs(refdata.UNITS[sym][1])}")
            if gs["ref"] != ds["ref"]:
                ctx.viol(f"gendoc/ref/{t}", f"generated reference unit {gs['ref']} != documented {ds['ref']}")

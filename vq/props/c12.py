"""C12 — converter registration is last-in-first-out and restores prior behaviour."""
import datetime
import itertools
from fractions import Fraction

from .. import env  # noqa: F401
from hypothesis import strategies as st

from decimalfp import Decimal

from quantity import Quantity, QuantityMeta, UnitConversionError
from quantity.money import Money, MoneyConverter

from .. import gen
from ..model import F, fs
from ..runner import Part

PID = "C12"
TECHNIQUE = ("exhaustive enumeration of register/unregister/with-block programs up to a bounded size + Hypothesis "
             "programs beyond, executed with real with-statements against a list model compared after every step")
LEVEL_TEXT = ("Every register/unregister/with-block program up to 4 nodes (5 in the thorough tier) over two converters is enumerated and executed with real with-statements against a list model; larger programs and generic converter sequences are generated. Bounded-exhaustive + exploration.")
RULE = ("money part: programs = trees over {with c: body (left normally or by an exception), register c, unregister c, "
        "convert a->b} for 2-3 converters with distinct constant rates (one lacks a rate); ALL programs with up to 4 "
        "nodes (5 in the thorough tier) over 2 converters are enumerated, larger ones (up to 25 nodes, 3 converters) are "
        "drawn by Hypothesis; generic part: per case a fresh type without reference unit and sequences over {register f, "
        "register f again, remove f, remove unknown, convert} with callables answering only some unit pairs. Oracle: a "
        "Python list; registered_converters() and the outcome of convert are compared after every step; teardown "
        "unwinds and asserts the initial state; generic converters are plain functions, bound methods (equal, not "
        "identical, on every access) or callable objects, and steps include sums across units (the right operand is "
        "converted, directionally). Non-trivial = nesting depth >= 2 together with a rejected unregister or "
        "an exceptional exit (money), or a sequence with a removal followed by a conversion (generic); distinct by digest")

EUR = Money.register_currency("EUR")
USD = Money.register_currency("USD")
JPY = Money.register_currency("JPY")
_RATES = [
    {"USD": Decimal("2"), "JPY": Decimal("200")},
    {"USD": Decimal("3")},                       # lacks the JPY rate
    {"USD": Decimal("5"), "JPY": Decimal("500")},
]


def _mkconvs():
    out = []
    for r in _RATES:
        c = MoneyConverter(EUR, get_dflt_effective_date=lambda: datetime.date(2020, 1, 1))
        c.update(None, [(Money.get_unit_by_symbol(k), v, 1) for k, v in r.items()])
        out.append(c)
    return out


CONVS = _mkconvs()


class Boom(Exception):
    pass


# ---------------------------------------------------------------------------
# program enumeration

def _seqs(n, nconv, memo):
    """all sequences with exactly n nodes"""
    key = n
    if key in memo:
        return memo[key]
    if n == 0:
        memo[key] = [[]]
        return memo[key]
    out = []
    atoms = [["conv", "USD"]] + [[op, c] for op in ("reg", "unreg") for c in range(nconv)]
    for rest in _seqs(n - 1, nconv, memo):
        for a in atoms:
            out.append([a] + rest)
    for j in range(n):
        for body in _seqs(j, nconv, memo):
            for rest in _seqs(n - 1 - j, nconv, memo):
                for c in range(nconv):
                    for leave in ("normal", "raise"):
                        out.append([["with", c, body, leave]] + rest)
    memo[key] = out
    return out


def enum_programs(maxn):
    def it(shard, nshards):
        memo = {}
        i = 0
        for n in range(1, maxn + 1):
            for prog in _seqs(n, 2, memo):
                i += 1
                if i % nshards == shard:
                    yield {"k": "money", "prog": prog}
    return it


@st.composite
def _node(draw, depth):
    sel = draw(st.integers(0, 9))
    c = draw(st.integers(0, 2))
    if sel <= 2 and depth < 4:
        body = [draw(_node(depth + 1)) for _ in range(draw(st.integers(0, 4)))]
        return ["with", c, body, draw(st.sampled_from(["normal", "normal", "raise"]))]
    if sel <= 4:
        return ["reg", c]
    if sel <= 6:
        return ["unreg", c]
    return ["conv", draw(st.sampled_from(["USD", "USD", "JPY"]))]


@st.composite
def gen_money(draw, max_top=7):
    return {"k": "money", "prog": [draw(_node(0)) for _ in range(draw(st.integers(1, max_top)))]}


@st.composite
def gen_generic(draw):
    nf = draw(st.integers(1, 4))
    funcs = []
    for _ in range(nf):
        pairs = draw(st.lists(st.tuples(st.integers(0, 2), st.integers(0, 2)).filter(lambda p: p[0] != p[1]),
                              min_size=0, max_size=4, unique=True))
        funcs.append({"pairs": [list(p) for p in pairs], "factor": draw(st.integers(2, 9)),
                      "style": draw(st.sampled_from(["func", "func", "method", "obj"]))})
    steps = []
    for _ in range(draw(st.integers(2, 14))):
        sel = draw(st.integers(0, 9))
        if sel <= 2:
            steps.append(["reg", draw(st.integers(0, nf - 1))])
        elif sel <= 4:
            steps.append(["remove", draw(st.integers(0, nf - 1))])
        elif sel == 5:
            steps.append(["remove_unknown"])
        elif sel <= 7:
            a, b = draw(st.permutations([0, 1, 2]))[:2]
            steps.append(["conv", a, b, draw(st.sampled_from([7, 7, 0, -3]))])
        else:
            # a sum across units needs the RIGHT operand in the left operand's unit (the converters are
            # directional: knowing a -> b says nothing about b -> a)
            a, b = draw(st.permutations([0, 1, 2]))[:2]
            steps.append(["add", a, b, draw(st.sampled_from([7, 0, -3])), draw(st.sampled_from([5, 1, -2]))])
    return {"k": "generic", "funcs": funcs, "steps": steps}


def parts(tier):
    big = tier == "thorough"
    return [Part("enum", "enum", enum=enum_programs(5 if big else 4), exhaustive=True, shards=32),
            Part("money", "hyp", strategy=gen_money(14 if big else 7), n=300000 if big else 12000),
            Part("generic", "hyp", strategy=gen_generic(), n=200000 if big else 12000, chunk=3000)]


# ---------------------------------------------------------------------------

class Run:
    def __init__(self, ctx, case):
        self.ctx = ctx
        self.case = case
        self.stack = []
        self.depth_max = 0
        self.rejected = False
        self.exceptional = False
        self.ok = True

    def observe(self, where):
        got = list(Money.registered_converters())
        want = [CONVS[i] for i in reversed(self.stack)]
        if len(got) != len(want) or any(g is not w for g, w in zip(got, want)):
            self.ctx.viol("money/stack", f"after {where}: registered_converters() = "
                          f"{[CONVS.index(g) if g in CONVS else '?' for g in got]} (most recent first), model "
                          f"{list(reversed(self.stack))}")
            self.ok = False

    def convert(self, code, where):
        self._convert(code, where, 1)
        self._convert(code, where, 0)       # a converter answering zero still is the one that answers

    def _convert(self, code, where, amount):
        cur = Money.get_unit_by_symbol(code)
        m = Money(amount, EUR)
        self.ctx.tick()
        want = None
        if self.stack:
            want = _RATES[self.stack[-1]].get(code)
            if want is not None:
                want = want * amount
        try:
            res = m.convert(cur)
        except UnitConversionError:
            if want is not None:
                self.ctx.viol("money/convert/rejected", f"{where}: {amount} EUR -> {code} raised UnitConversionError; the most "
                              f"recently registered converter #{self.stack[-1]} has the rate {want}")
                self.ok = False
            return
        except Exception as exc:  # noqa: BLE001
            self.ctx.viol(f"money/convert/{type(exc).__name__}", f"{where}: 1 EUR -> {code} raised "
                          f"{type(exc).__name__}: {exc}")
            self.ok = False
            return
        if want is None:
            self.ctx.viol("money/convert/phantom", f"{where}: {amount} EUR -> {code} = {res!r} with converter stack "
                          f"{self.stack} (top has no such rate / no converter active)")
            self.ok = False
        elif res.unit is not cur or F(res.amount) != F(want):
            self.ctx.viol("money/convert/wrong_converter", f"{where}: {amount} EUR -> {code} = {res!r}; the most recently "
                          f"registered converter #{self.stack[-1]} gives {want} (stack {self.stack})")
            self.ok = False

    def exec_seq(self, nodes, depth, path):
        for i, node in enumerate(nodes):
            if not self.ok:
                return
            where = f"{path}{i}:{node[0]}"
            kind = node[0]
            if kind == "reg":
                Money.register_converter(CONVS[node[1]])
                self.stack.append(node[1])
            elif kind == "unreg":
                c = node[1]
                legal = bool(self.stack) and self.stack[-1] == c
                try:
                    Money.remove_converter(CONVS[c])
                except Exception as exc:  # noqa: BLE001
                    if legal:
                        self.ctx.viol("money/unreg/rejected", f"{where}: unregistering the most recent converter #{c} "
                                      f"raised {type(exc).__name__}: {exc}")
                        self.ok = False
                    else:
                        self.rejected = True
                else:
                    if legal:
                        self.stack.pop()
                    else:
                        self.ctx.viol("money/unreg/accepted", f"{where}: unregistering converter #{c} succeeded although "
                                      f"it is not the most recent one (stack {self.stack})")
                        self.ok = False
            elif kind == "conv":
                self.convert(node[1], where)
            elif kind == "with":
                c, body, leave = node[1], node[2], node[3]
                boom = Boom(where)
                try:
                    with CONVS[c] as entered:
                        if entered is not CONVS[c]:
                            self.ctx.viol("money/with/enter", f"{where}: __enter__ returned {entered!r}")
                        self.stack.append(c)
                        self.depth_max = max(self.depth_max, depth + 1)
                        self.observe(where + " (entered)")
                        self.exec_seq(body, depth + 1, where + "/")
                        if leave == "raise":
                            self.exceptional = True
                            raise boom
                        expect_pop = bool(self.stack) and self.stack[-1] == c
                except Boom as exc:
                    if exc is not boom:
                        raise
                    # left by our exception: __exit__ must have popped c (if it was on top)
                    if self.stack and self.stack[-1] == c:
                        self.stack.pop()
                    else:
                        self.ctx.viol("money/with/exit_swallowed", f"{where}: the block's own converter was not on top "
                                      "when leaving, yet leaving raised nothing but the body's exception")
                        self.ok = False
                except ValueError:
                    # __exit__ refused: the body changed the stack so that c is not on top
                    if self.stack and self.stack[-1] == c:
                        self.ctx.viol("money/with/exit_rejected", f"{where}: leaving the block raised although its "
                                      f"converter #{c} is the most recent one (stack {self.stack})")
                        self.ok = False
                    self.rejected = True
                except IndexError:
                    if self.stack:
                        self.ctx.viol("money/with/exit_index", f"{where}: leaving raised IndexError with stack {self.stack}")
                        self.ok = False
                    self.rejected = True
                else:
                    if leave == "raise":
                        self.ctx.viol("money/with/exception_lost", f"{where}: the exception raised in the block did not "
                                      "propagate")
                        self.ok = False
                    elif expect_pop:
                        self.stack.pop()
                    else:
                        self.ctx.viol("money/with/exit_accepted", f"{where}: leaving succeeded although converter #{c} "
                                      f"was not the most recent one (stack {self.stack})")
                        self.ok = False
            self.observe(where)


def _unwind():
    while True:
        cs = list(Money.registered_converters())
        if not cs:
            return
        Money.remove_converter(cs[0])


def run_case(case, ctx):
    ctx.label(case["k"])
    if case["k"] == "generic":
        return _run_generic(case, ctx)
    if list(Money.registered_converters()):
        raise AssertionError("harness: converter stack not empty at the start of a case")
    r = Run(ctx, case)
    try:
        r.convert("USD", "before")
        r.exec_seq(case["prog"], 0, "")
        if r.ok:
            # after everything that was registered is unregistered, behaviour is as before
            while r.stack:
                c = r.stack.pop()
                Money.remove_converter(CONVS[c])
                r.observe("unwinding")
            r.convert("USD", "after")
            r.convert("JPY", "after")
    finally:
        _unwind()
    if r.depth_max >= 2 and (r.rejected or r.exceptional):
        ctx.nontrivial()
    if r.rejected:
        ctx.label("rejected_unregister")
    if r.exceptional:
        ctx.label("exceptional_exit")
    ctx.label(f"depth/{min(r.depth_max, 4)}")


_gctr = itertools.count(1)


def _run_generic(case, ctx):
    n = next(_gctr)
    G = QuantityMeta(f"C12G{n}", (Quantity,), {})
    units = [G.new_unit(f"c12g{n}_{i}") for i in range(3)]

    def mk(spec):
        pairs = {(units[a], units[b]) for a, b in spec["pairs"]}

        def conv(qty, to_unit):
            if (qty.unit, to_unit) in pairs:
                return qty.amount * spec["factor"]
            return None
        style = spec.get("style", "func")
        if style == "func":
            return lambda: conv

        class Holder:
            def convert(self, qty, to_unit):
                return conv(qty, to_unit)

            def __call__(self, qty, to_unit):
                return conv(qty, to_unit)
        h = Holder()
        if style == "obj":
            return lambda: h
        # a bound method: every attribute access creates a new object that is == but not `is` the previous one;
        # it is still "the same converter"
        return lambda: h.convert
    getters = [mk(s) for s in case["funcs"]]

    class _Funcs:
        def __getitem__(self, i):
            return getters[i]()
    funcs = _Funcs()
    for sp in case["funcs"]:
        ctx.label(f"style/{sp.get('style', 'func')}")
    unknown = mk({"pairs": [], "factor": 1})()
    model = []
    removed = False
    nontriv = False
    for i, stp in enumerate(case["steps"]):
        where = f"step {i} {stp}"
        if stp[0] == "reg":
            G.register_converter(funcs[stp[1]])
            if stp[1] not in model:
                model.append(stp[1])
        elif stp[0] in ("remove", "remove_unknown"):
            f = unknown if stp[0] == "remove_unknown" else funcs[stp[1]]
            present = stp[0] == "remove" and stp[1] in model
            try:
                G.remove_converter(f)
            except ValueError:
                if present:
                    ctx.viol("generic/remove/rejected", f"{where}: removing a registered converter raised ValueError")
                    return
            except Exception as exc:  # noqa: BLE001
                ctx.viol(f"generic/remove/{type(exc).__name__}", f"{where}: raised {type(exc).__name__}: {exc}")
                return
            else:
                if not present:
                    ctx.viol("generic/remove/accepted", f"{where}: removing an unregistered converter succeeded")
                    return
                model.remove(stp[1])
                removed = True
        elif stp[0] == "add":
            a, b, x, y = stp[1:]
            want = None
            for fi in reversed(model):
                if [b, a] in case["funcs"][fi]["pairs"]:
                    want = x + y * case["funcs"][fi]["factor"]
                    break
            ctx.tick()
            ctx.label("generic/add")
            try:
                res = G(x, units[a]) + G(y, units[b])
            except UnitConversionError:
                if want is not None:
                    ctx.viol("generic/add/rejected", f"{where}: raised UnitConversionError; converters {model} "
                             f"(most recent last) convert the right operand, sum should be {want}")
                    return
                continue
            except Exception as exc:  # noqa: BLE001
                ctx.viol(f"generic/add/{type(exc).__name__}", f"{where}: raised {type(exc).__name__}: {exc}")
                return
            if want is None or res.unit is not units[a] or F(res.amount) != want:
                ctx.viol("generic/add/wrong", f"{where}: = {res!r}; converters {model} (most recent last), expected "
                         + (f"{want} {units[a]}" if want is not None else "UnitConversionError"))
                return
            continue
        else:
            a, b = stp[1], stp[2]
            amt = stp[3] if len(stp) > 3 else 7
            q = G(amt, units[a])
            want = None
            for fi in reversed(model):
                if [a, b] in case["funcs"][fi]["pairs"]:
                    want = amt * case["funcs"][fi]["factor"]
                    break
            ctx.tick()
            if removed:
                nontriv = True
            try:
                res = q.convert(units[b])
            except UnitConversionError:
                if want is not None:
                    ctx.viol("generic/convert/rejected", f"{where}: raised UnitConversionError; converters {model} "
                             f"(most recent last) should give {want}")
                    return
                continue
            except Exception as exc:  # noqa: BLE001
                ctx.viol(f"generic/convert/{type(exc).__name__}", f"{where}: raised {type(exc).__name__}: {exc}")
                return
            if want is None or res.unit is not units[b] or F(res.amount) != want:
                ctx.viol("generic/convert/wrong", f"{where}: = {res!r}; converters {model} (most recent last) should give "
                         f"{want}")
                return
        got = list(G.registered_converters())
        want_l = [funcs[i] for i in reversed(model)]
        if len(got) != len(want_l) or any(g != w for g, w in zip(got, want_l)):
            ctx.viol("generic/list", f"{where}: registered_converters() has {len(got)} entries in an order different "
                     f"from the model {list(reversed(model))}")
            return
    if nontriv:
        ctx.nontrivial()

"""C18 — construction is exact and the text form round-trips."""
import json
import os
import shutil
import subprocess
import sys
import tempfile
from fractions import Fraction

from .. import env
from hypothesis import strategies as st

from decimalfp import Decimal

from quantity import IncompatibleUnitsError, Quantity, QuantityError, QuantityMeta, Unit, UnitConversionError
import quantity.predefined as pre  # noqa: F401
from quantity.money import Money

from .. import cat, gen, refdata
from ..model import F, exact, fs, is_dec_repr, mknum, round_to
from ..runner import Part

PID = "C18"
TECHNIQUE = ("Hypothesis generated-input search (numbers of every accepted kind x all registered units incl. odd symbols, "
             "text mutations) + coverage-guided atheris/libFuzzer campaign on the text parser with the oracle inside "
             "the target")
RULE = ("numbers: int, Fraction, decimalfp/decimal Decimal, float (incl. 5e-324, 2.2e-308, 1.8e308 and random bit "
        "patterns), numeric strings ('1e3', '-.5', 'n/d', leading blanks) x every predefined/lab/odd-symbol unit and "
        "ISO currencies x generic factory / own type / amount*unit; text: str/format/parse round trip through both "
        "factories, parsing with an explicit other unit vs parse-then-convert, malformed text built by mutation, and "
        "an atheris campaign over raw text (seed corpus from the repository's tests + symbol dictionary, and an empty "
        "corpus). Oracle: Fraction value of the input computed with the stdlib only; for arbitrary text: either a "
        "quantity whose amount/symbol agree with an independent reading of the text, or QuantityError - nothing else. "
        "Non-trivial = non-integer amount with a non-ASCII/compound symbol, a float that is not a short decimal, or "
        "malformed text that parses past the number; distinct by digest")

# units with awkward symbols (declared once per process)
LabS = QuantityMeta("LabS", (Quantity,), {}, ref_unit_symbol="µΩ", ref_unit_name="micro ohm")
_ODD = {"µΩ": Fraction(1)}
for _sym, _f in (("a b", 3), ("m/s²·K", 7), ("€¢", Fraction(1, 100)), ("x²", 1000), ("1/z", Fraction(1, 3)),
                 ("°", 60), ("k g", Fraction(5, 2)), ("é·ü/ß³", 12), ("１２", 2), ("e3", 5), ("1e3", 8), ("3/4", 9)):
    LabS.new_unit(_sym, None, _f * LabS.ref_unit)
    _ODD[_sym] = Fraction(_f)

SYMS = list(cat.ALL_UNITS) + refdata.TEMP_UNITS + list(_ODD)
CURS = ["EUR", "JPY", "TND", "CLF"]


def scale(sym):
    if sym in _ODD:
        return _ODD[sym]
    if sym in refdata.TEMP_UNITS or sym in CURS:
        return Fraction(1)
    return cat.scale(sym)


def tname(sym):
    if sym in _ODD:
        return "LabS"
    if sym in CURS:
        return "Money"
    return cat.tname(sym)


def quantum(sym):
    if sym in _ODD or sym in refdata.TEMP_UNITS:
        return None
    if sym in CURS:
        return cat.quantum(["cur", sym])
    return cat.quantum(sym)


def unit(sym):
    if sym in CURS:
        return Money.register_currency(sym)
    return Unit(sym)


_KINDS = ("int", "dec", "decp", "frac", "float", "str", "sdec")


@st.composite
def _long_decimal(draw):
    """30-70 significant digits (more than any default decimal context holds)."""
    digits = draw(st.integers(30, 70))
    n = draw(st.integers(10 ** (digits - 1), 10 ** digits - 1))
    places = draw(st.integers(0, digits + 5))
    sign = draw(st.sampled_from(["", "-"]))
    lit = str(n).rjust(places + 1, "0")
    lit = sign + (lit[:-places] + "." + lit[-places:] if places else lit)
    return [draw(st.sampled_from(["sdec", "sdec", "str"])), lit]


@st.composite
def gen_num(draw):
    sym = draw(st.sampled_from(SYMS + CURS))
    amt = gen.pick(draw, (6, gen.encode(gen.fractions(), _KINDS)), (3, gen.floats_enc()), (2, _long_decimal()),
                   (1, gen.floats_enc().map(lambda e: ["sdec", format(__import__("decimal").Decimal(float.fromhex(e[1])), "f")])),
                   (1, st.sampled_from([["str", "1e3"], ["str", "-.5"], ["str", "+7."], ["str", "  12"], ["str", "1E-3"],
                                        ["str", "-0"], ["str", "007"], ["str", "3/4"], ["str", "-6/8"],
                                        ["sdec", "1E+3"], ["sdec", "-0.00"], ["float", (-0.0).hex()]])))
    return {"k": "num", "sym": sym, "amt": amt,
            "via": draw(st.sampled_from(["factory", "cls", "cls_default", "mul", "rmul"]))}


@st.composite
def gen_text(draw):
    sym = draw(st.sampled_from(SYMS + CURS))
    q = quantum(sym)
    fr = draw(gen.fractions())
    if q is not None:
        fr = round(fr / q) * q
    rep = draw(st.sampled_from(["dec", "frac", "decp"])) if is_dec_repr(fr) else "frac"
    t = tname(sym)
    others = [s for s in SYMS + CURS if tname(s) == t]
    foreign = [s for s in SYMS if tname(s) != t]
    other = gen.pick(draw, (5, st.sampled_from(others)), (1, st.sampled_from(foreign)))
    return {"k": "text", "sym": sym, "amt": gen.encode_as(fr, rep, draw), "other": other,
            "pad": draw(st.sampled_from(["", "", " ", "   "])), "sep": draw(st.sampled_from([" ", " ", "  ", "    "])),
            "tail": draw(st.sampled_from(["", "", " ", "  "]))}


_JUNK_NUM = ["abc", "1..2", "--1", "1e", "e5", "1/", "/2", "1/2/3", "0x10", "1_0", "", "+", ".", "1,5", "١٢x", "NaN",
             "inf", "-Infinity", "1/0", "9/0", "0/0", "1e+", "½", "1 000"]


@st.composite
def gen_malformed(draw):
    how = draw(st.sampled_from(["junk_number", "unknown_symbol", "no_blank", "mutate", "tab", "only_symbol", "random"]))
    sym = draw(st.sampled_from(SYMS))
    num = draw(st.sampled_from(["12", "-1.5", "3/7", "1e3", "0.001"]))
    if how == "junk_number":
        s = f"{draw(st.sampled_from(_JUNK_NUM))} {sym}"
    elif how == "unknown_symbol":
        bad = draw(st.one_of(st.sampled_from(["xyzzy", "KM", "m ", "kmm", "m/", "·m", "²", "EURO", "k m", "m²²"]),
                             st.text(min_size=1, max_size=6)))
        s = f"{num} {bad}"
    elif how == "no_blank":
        s = f"{num}{sym}"
    elif how == "tab":
        s = f"{num}{draw(st.sampled_from(['\t', '\n', ' ', ' ']))}{sym}"
    elif how == "only_symbol":
        s = sym
    elif how == "mutate":
        base = f"{num} {sym}"
        i = draw(st.integers(0, len(base)))
        ch = draw(st.one_of(st.characters(codec="utf-8"), st.sampled_from(list(" /.e-+0²·\x00"))))
        op = draw(st.integers(0, 2))
        s = base[:i] + ch + base[i:] if op == 0 else base[:i] + base[i + 1:] if op == 1 else base[:i] + ch + base[i + 1:]
    else:
        s = draw(st.text(max_size=20))
    return {"k": "rawtext", "s": s, "explicit": draw(st.sampled_from([None, None, "m", "kg", "°C"]))}


def parts(tier):
    big = tier == "thorough"
    return [Part("num", "hyp", strategy=gen_num(), n=500000 if big else 30000),
            Part("text", "hyp", strategy=gen_text(), n=400000 if big else 25000),
            Part("malformed", "hyp", strategy=gen_malformed(), n=400000 if big else 25000),
            Part("fuzz", "custom", custom=fuzz_part, n=(2000000 if big else 150000), shards=(16 if big else 4))]


# ---------------------------------------------------------------------------
# independent reading of a text

def ref_parse_number(tok):
    """Exact value of a numeric token, or None (stdlib only)."""
    if len(tok) > 400:
        return "skip"
    import decimal
    import re
    m = re.search(r"[eE]([+-]?\d+)\s*$", tok)
    if m and abs(int(m.group(1))) > 5000:
        return "skip"
    try:
        d = decimal.Decimal(tok)
        if d.is_finite():
            return Fraction(d)
        return None
    except (decimal.InvalidOperation, ValueError):
        pass
    try:
        return Fraction(tok)
    except (ValueError, ZeroDivisionError):
        return None


def check_raw_text(ctx, s, explicit=None):
    """Outcome-agnostic oracle for arbitrary text (shared with the fuzz target)."""
    eu = Unit(explicit) if explicit else None
    import re
    m = re.search(r"[eE]\s*([+-]?\d+)", s)
    if (m and len(m.group(1)) > 4) or len(s) > 400:
        # resource bound of the harness (DESIGN.md 7.8): '1e999999999' makes any decimal implementation
        # allocate gigabytes; not generated, and skipped when a fuzzer finds it
        return "skipped"
    try:
        q = Quantity(s, eu) if eu is not None else Quantity(s)
    except QuantityError:
        return "rejected"
    except Exception as exc:  # noqa: BLE001
        ctx.viol(f"text/raises/{type(exc).__name__}", f"Quantity({s!r}{', ' + explicit if explicit else ''}) raised "
                 f"{type(exc).__name__}: {exc}; malformed text must raise QuantityError")
        return "crash"
    # independent reading: number token up to the first white space, the rest is the symbol.  Which white space
    # separates (HEAD: blanks only) is the parser's business; an accepted text must have this reading.
    # (HEAD splits at the first blank and leaves the token to Fraction(), which tolerates '1/\r7'.)
    for parts_ in (s.lstrip().split(" ", 1), s.lstrip().split(None, 1) or [""]):
        val = ref_parse_number(parts_[0])
        if val is not None:
            break
    if val == "skip":
        return "accepted"
    sym = parts_[1].strip() if len(parts_) > 1 else None
    if val is None:
        ctx.viol("text/accepted_bad_number", f"Quantity({s!r}) = {q!r} although {parts_[0]!r} is not a number")
        return "accepted"
    if sym is None:
        if eu is None:
            ctx.viol("text/accepted_no_unit", f"Quantity({s!r}) = {q!r} without any unit")
        return "accepted"
    if eu is None:
        if q.unit.symbol != sym:
            ctx.viol("text/wrong_symbol", f"Quantity({s!r}) has unit {q.unit.symbol!r}")
        elif q.unit.quantum is None and F(q.amount) != val:
            ctx.viol("text/wrong_value", f"Quantity({s!r}).amount = {fs(F(q.amount))}, text says {fs(val)}")
    return "accepted"


# ---------------------------------------------------------------------------

def run_case(case, ctx):
    k = case["k"]
    ctx.label(k)
    if k == "rawtext":
        r = check_raw_text(ctx, case["s"], case.get("explicit"))
        ctx.label(f"outcome/{r}")
        parts_ = case["s"].lstrip().split(" ", 1)
        if r == "rejected" and ref_parse_number(parts_[0]) not in (None, "skip"):
            ctx.nontrivial()
            if case.get("explicit") is None and len(parts_) > 1 and parts_[1].strip():
                # a number followed by an unknown symbol: a type's own constructor must refuse it as well (it may
                # only fall back to its reference unit when there is no symbol at all)
                ctx.label("unknown_symbol/typed_constructor")
                for cls_ in (pre.Length, pre.Mass, pre.Duration):
                    try:
                        q2 = cls_(case["s"])
                    except QuantityError:
                        continue
                    except Exception as exc:  # noqa: BLE001
                        ctx.viol(f"text/typed/raises/{type(exc).__name__}", f"{cls_.__name__}({case['s']!r}) raised "
                                 f"{type(exc).__name__}: {exc}; unknown symbols must raise QuantityError")
                        break
                    ctx.viol("text/typed/unknown_symbol_accepted", f"{cls_.__name__}({case['s']!r}) = {q2!r} although "
                             f"Quantity({case['s']!r}) is rejected (unknown symbol)")
                    break
        elif r == "rejected":
            ctx.nontrivial(len(case["s"]) > 2)
        return
    sym = case["sym"]
    u = unit(sym)
    cls = u.qty_cls
    qm = quantum(sym)
    if k == "num":
        enc = case["amt"]
        val = exact(enc)
        obj = mknum(enc)
        via = case["via"]
        if enc[0] in ("str", "sdec") and via in ("mul", "rmul"):
            via = "factory"
        if via == "cls_default" and (cls.ref_unit is None):
            via = "cls"
        ctx.label(f"kind/{enc[0]}")
        ctx.label(f"via/{via}")
        what = {"factory": f"Quantity({obj!r}, {u})", "cls": f"{cls.__name__}({obj!r}, {u})",
                "cls_default": f"{cls.__name__}({obj!r})", "mul": f"{obj!r} * {u}", "rmul": f"{u} * {obj!r}"}[via]
        try:
            if via == "factory":
                q = Quantity(obj, u)
            elif via == "cls":
                q = cls(obj, u)
            elif via == "cls_default":
                q = cls(obj)
                u = cls.ref_unit
                qm = cls.quantum
            elif via == "mul":
                q = obj * u
            else:
                q = u * obj
        except Exception as exc:  # noqa: BLE001
            ctx.viol(f"num/raises/{enc[0]}/{type(exc).__name__}", f"{what} raised {type(exc).__name__}: {exc}")
            return
        if enc[0] == "float" and not is_dec_repr(val) or (enc[0] == "float" and len(str(val.denominator)) > 6) or \
                (val.denominator != 1 and not sym.isascii()):
            ctx.nontrivial()
        if type(q) is not cls or q.unit is not u:
            ctx.viol("num/type_unit", f"{what} = {q!r}")
            return
        if not isinstance(q.amount, (Decimal, Fraction)):
            ctx.viol("num/amount_type", f"{what} holds a {type(q.amount).__name__}")
            return
        want = val if qm is None else round_to(val, F(qm), "ROUND_HALF_EVEN")
        if F(q.amount) != want:
            ctx.viol(f"num/value/{enc[0]}", f"{what}.amount = {fs(F(q.amount))}; the input's exact value is {fs(val)}"
                     + (f" (rounded to the quantum: {fs(want)})" if qm is not None else ""))
        return
    # text round trip
    q = Quantity(mknum(case["amt"]), u)
    s = str(q)
    if sym not in ("m", "kg", "s") and F(q.amount).denominator != 1:
        ctx.nontrivial()
    if s != f"{q.amount} {q.unit.symbol}" or s != f"{q.amount} {sym}":
        ctx.viol("text/str", f"str({q!r}) = {s!r}")
        return
    if format(q) != s or f"{q}" != s or format(q, "") != s:
        ctx.viol("text/format", f"format({q!r}) = {format(q)!r}, str = {s!r}")
    text = case["pad"] + s.replace(" ", case["sep"], 1) + case["tail"]
    for name, fn in (("factory", lambda: Quantity(text)), ("cls", lambda: cls(text)),
                     ("factory_same_unit", lambda: Quantity(text, u)), ("cls_same_unit", lambda: cls(text, u))):
        ctx.tick()
        try:
            p = fn()
        except Exception as exc:  # noqa: BLE001
            ctx.viol(f"text/parse/{name}/{type(exc).__name__}", f"parsing {text!r} ({name}) raised "
                     f"{type(exc).__name__}: {exc}")
            continue
        if type(p) is not cls or p.unit is not u or F(p.amount) != F(q.amount) or not (p == q):
            ctx.viol(f"text/roundtrip/{name}", f"parsing {text!r} ({name}) = {p!r}; original {q!r}")
    # explicit other unit: equals parse-then-convert (same exception class when that fails)
    other = case["other"]
    ou = unit(other)

    def outcome(fn):
        try:
            return ("ok", fn())
        except Exception as exc:  # noqa: BLE001
            return ("exc", type(exc))
    a = outcome(lambda: Quantity(text, ou))
    b = outcome(lambda: Quantity(text).convert(ou))
    ctx.tick()
    if a[0] != b[0]:
        ctx.viol("text/explicit_unit/outcome", f"Quantity({text!r}, {ou}) -> {a}; parse-then-convert -> {b}")
    elif a[0] == "exc":
        if a[1] is not b[1]:
            ctx.viol("text/explicit_unit/exception", f"Quantity({text!r}, {ou}) raised {a[1].__name__}; "
                     f"parse-then-convert raised {b[1].__name__}")
        elif not issubclass(a[1], QuantityError):
            ctx.viol("text/explicit_unit/exc_class", f"Quantity({text!r}, {ou}) raised {a[1].__name__}")
    else:
        x, y = a[1], b[1]
        if type(x) is not type(y) or x.unit is not y.unit or F(x.amount) != F(y.amount):
            ctx.viol("text/explicit_unit/value", f"Quantity({text!r}, {ou}) = {x!r}; parse-then-convert = {y!r}")
        elif tname(other) == tname(sym) and other not in refdata.TEMP_UNITS and sym not in CURS:
            want = F(q.amount) * scale(sym) / scale(other)
            qo = quantum(other)
            if qo is not None:
                want = round_to(want, qo, "ROUND_HALF_EVEN")
            if F(x.amount) != want:
                ctx.viol("text/explicit_unit/model", f"Quantity({text!r}, {ou}) = {x!r}; expected amount {fs(want)}")


# ---------------------------------------------------------------------------
# coverage-guided campaign (atheris); findings are replayed through run_case

def fuzz_part(ctx, shard, nshards, n, sd):
    target = os.path.join(env.VERIF_DIR, "fuzz", "c18_text.py")
    deps = os.path.join(env.VERIF_DIR, ".deps")
    if not os.path.isdir(os.path.join(deps, "atheris")):
        ctx.label("atheris_missing")
        return
    work = tempfile.mkdtemp(prefix="vq-c18-")
    try:
        corpus = os.path.join(work, "corpus")
        os.makedirs(corpus)
        if shard % 2 == 0:      # odd shards start from an empty corpus
            src = os.path.join(env.VERIF_DIR, "fuzz", "corpus_c18")
            for fn in os.listdir(src):
                shutil.copy(os.path.join(src, fn), corpus)
        out = os.path.join(work, "findings.jsonl")
        e = dict(os.environ)
        e["PYTHONPATH"] = os.pathsep.join([env.VERIF_DIR, deps])
        e["VQ_FUZZ_OUT"] = out
        e["VERIF_REPO"] = env.REPO
        cmd = [sys.executable, target, corpus, f"-runs={n}", f"-seed={sd % (2 ** 31) or 1}", "-max_len=64",
               "-timeout=30", "-rss_limit_mb=4096",
               f"-dict={os.path.join(env.VERIF_DIR, 'fuzz', 'c18.dict')}", "-print_final_stats=1", "-verbosity=0"]
        try:
            p = subprocess.run(cmd, capture_output=True, text=True, env=e, cwd=work,
                               timeout=900 if n > 200000 else 300)
        except subprocess.TimeoutExpired:
            # a time budget hit means 'inconclusive', never a violation
            ctx.labels["fuzz/campaign_timeout"] += 1
            return
        runs = 0
        for line in (p.stderr or "").splitlines():
            if "stat::number_of_executed_units" in line:
                runs = int(line.split(":")[-1])
        stats = {}
        if os.path.exists(out + ".stats"):
            stats = json.load(open(out + ".stats"))
            runs = runs or stats.get("execs", 0)
        if runs == 0 and p.returncode != 0:
            raise RuntimeError(f"atheris target failed rc={p.returncode}: {p.stderr[-800:]}")
        ctx.evaluations += runs
        ctx.labels["fuzz/executions"] += runs
        ctx.labels["fuzz/corpus_files"] += len(os.listdir(corpus))
        for key, v in stats.get("outcomes", {}).items():
            ctx.labels[f"fuzz/outcome/{key}"] += v
        for d in stats.get("accepted_samples", [])[:40]:
            ctx.digests.add(("fz" + d).encode()[:10])
        if os.path.exists(out):
            seen = set()
            for line in open(out, encoding="utf-8"):
                rec = json.loads(line)
                if rec["s"] in seen:
                    continue
                seen.add(rec["s"])
                case = {"k": "rawtext", "s": rec["s"], "explicit": None}
                ctx.run(sys.modules[__name__], case)
    finally:
        shutil.rmtree(work, ignore_errors=True)

"""C01 — unit conversion within a quantity type is exact and coherent."""
from fractions import Fraction

from .. import env  # noqa: F401
from hypothesis import strategies as st

import decimalfp
from decimalfp import Decimal

from quantity import IncompatibleUnitsError, Quantity, Unit
import quantity.predefined as pre  # noqa: F401
from quantity.money import Money  # noqa: F401

from .. import cat, gen, refdata, universe
from ..model import F, exact, fs, mknum, round_to
from ..runner import Part

PID = "C01"
TECHNIQUE = ("exhaustive enumeration of unit pairs/triples of the catalogue + Hypothesis amounts and generated "
             "universes of unit-definition chains, against reference-table / model scales on Fractions")
LEVEL_TEXT = ("Exhaustive over every ordered unit pair and triple of the 21 linear types of the catalogue + lab set (fixed probe amounts), plus generated amounts and generated universes of definition chains; each conversion is compared with amount x scale ratio from a hand-written reference table / independent model. Exploration, not proof: amounts and user declarations are unbounded.")
RULE = ("catalogue part: every ordered pair and triple of units of every linear type (predefined + lab types) is "
        "enumerated with fixed probe amounts, and Hypothesis draws (pair|triple, amount of every exact representation); "
        "universe part: Hypothesis generates fresh universes (scaled chains, term-defined, derived-from-base units, "
        "alias units) and converts between their units; cross-type targets for the error clause. Oracle: "
        "amount*S(u)/S(v) on Fractions with S from the hand-written table / universe model (never the library's own "
        "scale), plus round-trip, via-intermediate, equality, type and exactness clauses; a quarter of the drawn "
        "cases run with a bogus converter registered on the type. Non-trivial = distinct units "
        "with scale ratio != 1, or a cross-type target; distinct by (units, amount)")

LIN = cat.LINEAR_TYPES
_ALLSYM = list(cat.ALL_UNITS)


def enum_pairs(shard, nshards):
    i = 0
    for t in LIN:
        us = cat.units_of(t)
        for u in us:
            for v in us:
                i += 1
                if i % nshards == shard:
                    for a in (["int", "7"], ["frac", "-22/7"], ["dec", "1234567/1000"]):
                        yield {"k": "pair", "u": u, "v": v, "amt": a}


def enum_triples(shard, nshards):
    i = 0
    for t in LIN:
        us = cat.units_of(t)
        for u in us:
            for w in us:
                for v in us:
                    i += 1
                    if i % nshards == shard:
                        yield {"k": "triple", "u": u, "w": w, "v": v, "amt": ["frac", "355/113"]}


@st.composite
def gen_conv(draw):
    t = draw(st.sampled_from(LIN))
    us = cat.units_of(t)
    amt = draw(gen.encode(gen.fractions(), ("int", "dec", "decp", "frac")))
    prime = draw(st.sampled_from([False, False, True, "bogus"]))
    if draw(st.booleans()):
        return {"k": "pair", "u": draw(st.sampled_from(us)), "v": draw(st.sampled_from(us)), "amt": amt,
                "prime": prime}
    return {"k": "triple", "u": draw(st.sampled_from(us)), "w": draw(st.sampled_from(us)),
            "v": draw(st.sampled_from(us)), "amt": amt, "prime": prime}


@st.composite
def gen_cross(draw):
    u = draw(st.sampled_from(_ALLSYM + refdata.TEMP_UNITS))
    tu = cat.tname(u)
    v = draw(st.sampled_from(_ALLSYM + refdata.TEMP_UNITS + [["cur", "EUR"]]).filter(lambda x: cat.tname(x) != tu))
    return {"k": "cross", "u": u, "v": v, "amt": draw(gen.encode(gen.fractions(), ("int", "dec", "frac")))}


def parts(tier):
    big = tier == "thorough"
    return [
        Part("pairs", "enum", enum=enum_pairs, exhaustive=True, shards=16),
        Part("triples", "enum", enum=enum_triples, exhaustive=True, shards=32),
        Part("amounts", "hyp", strategy=gen_conv(), n=600000 if big else 30000),
        Part("cross", "hyp", strategy=gen_cross(), n=30000 if big else 3000),
        Part("universe", "hyp", strategy=universe.gen_conv_case(max_steps=20 if big else 10), n=300000 if big else 6000, chunk=1500),
    ]


def check_convert(ctx, q, v, S_u, S_v, quantum_v, what, tag):
    """Shared by catalogue and universe parts. Returns converted quantity or None."""
    cls = type(q)
    amt = F(q.amount)
    try:
        res = q.convert(v)
    except Exception as exc:  # noqa: BLE001
        ctx.viol(f"{tag}/raises/{type(exc).__name__}", f"{what} raised {type(exc).__name__}: {exc}")
        return None
    if type(res) is not cls:
        ctx.viol(f"{tag}/type", f"{what} is a {type(res).__name__}, expected {cls.__name__}")
        return None
    if res.unit is not v:
        ctx.viol(f"{tag}/unit", f"{what} has unit {res.unit}")
        return None
    if not isinstance(res.amount, (Decimal, Fraction)):
        ctx.viol(f"{tag}/amount_type", f"{what} holds a {type(res.amount).__name__} ({res.amount!r})")
        return None
    exp = amt * S_u / S_v
    exact_fwd = True
    if quantum_v is not None and (exp / quantum_v).denominator != 1:
        exact_fwd = False
        exp = round_to(exp, quantum_v, "ROUND_HALF_EVEN")
    got = F(res.amount)
    if got != exp:
        ctx.viol(f"{tag}/value", f"{what}.amount = {fs(got)}; amount x scale ratio = {fs(amt)} x {fs(S_u / S_v)} = {fs(exp)}")
        return None
    ea = q.equiv_amount(v)
    if ea is None or F(ea) != amt * S_u / S_v:
        ctx.viol(f"{tag}/equiv_amount", f"{q!r}.equiv_amount({v}) = {ea!r}, expected {fs(amt * S_u / S_v)}")
    if exact_fwd:
        if not (res == q) or (res != q):
            ctx.viol(f"{tag}/equal", f"{what} = {res!r} does not compare equal to the original {q!r}")
        back = res.convert(q.unit)
        if F(back.amount) != amt or back.unit is not q.unit:
            ctx.viol(f"{tag}/roundtrip", f"{q!r} -> {v} -> {q.unit} returns {back!r}")
    return res if exact_fwd else None


def run_case(case, ctx):
    k = case["k"]
    if k.startswith("u_"):
        return universe.run_conv_case(case, ctx, check_convert)
    u = cat.unit(case["u"])
    q = Quantity(mknum(case["amt"]), u)
    ctx.label(k)
    ctx.label(f"rep/{case['amt'][0]}")
    if k == "cross":
        v = cat.unit(case["v"])
        ctx.nontrivial()
        try:
            res = q.convert(v)
        except IncompatibleUnitsError:
            pass
        except Exception as exc:  # noqa: BLE001
            ctx.viol(f"cross/{type(exc).__name__}", f"{q!r}.convert({v}) raised {type(exc).__name__}: {exc}")
        else:
            ctx.viol("cross/returned", f"{q!r}.convert({v}) returned {res!r}")
        try:
            ea = q.equiv_amount(v)
        except IncompatibleUnitsError:
            return
        except Exception as exc:  # noqa: BLE001
            ctx.viol(f"cross/equiv/{type(exc).__name__}", f"{q!r}.equiv_amount({v}) raised {type(exc).__name__}")
            return
        ctx.viol("cross/equiv/returned", f"{q!r}.equiv_amount({v}) returned {ea!r}")
        return
    v = cat.unit(case["v"])
    Su, Sv = cat.scale(case["u"]), cat.scale(case["v"])
    if u is not v and Su != Sv:
        ctx.nontrivial()
    if case.get("prime") == "bogus":
        # a converter registered with a type whose units are scaled from a reference unit is none of the
        # conversion's business: the scale ratio is exact, the converter only a rule of thumb
        ctx.label("bogus_converter")

        def bogus(qty, to_unit):
            return qty.amount * 2 + 1
        cls0 = u.qty_cls
        cls0.register_converter(bogus)
        try:
            return run_case(dict(case, prime=False), ctx)
        finally:
            cls0.remove_converter(bogus)
    if case.get("prime"):
        # conversions must not depend on operations evaluated before
        ctx.label("primed")
        for fn in (lambda: u / v, lambda: v / u, lambda: u * v, lambda: q / v, lambda: q < Quantity(1, v)):
            try:
                fn()
            except Exception:  # noqa: BLE001
                pass
    if cat.quantum(case["u"]) is not None:
        ctx.label("quantized")
    direct = check_convert(ctx, q, v, Su, Sv, cat.quantum(case["v"]), f"{q!r}.convert({v})", "pair")
    if k == "triple":
        w = cat.unit(case["w"])
        Sw = cat.scale(case["w"])
        mid = check_convert(ctx, q, w, Su, Sw, cat.quantum(case["w"]), f"{q!r}.convert({w})", "pair")
        if mid is not None and direct is not None:
            via = check_convert(ctx, mid, v, Sw, Sv, cat.quantum(case["v"]), f"{mid!r}.convert({v})", "pair")
            if via is not None and (F(via.amount) != F(direct.amount) or not (via == direct)):
                ctx.viol("triple/via", f"{q!r} via {w} to {v} = {via!r}, direct = {direct!r}")

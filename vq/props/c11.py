"""C11 — money converter yields the right rate for every update history and date."""
import datetime
from fractions import Fraction

from .. import env  # noqa: F401
from hypothesis import seed as hseed, settings, strategies as st
from hypothesis.stateful import RuleBasedStateMachine, initialize, rule, run_state_machine_as_test

from quantity import UnitConversionError
from quantity.money import ExchangeRate, Money, MoneyConverter

from .. import gen, iso
from ..model import F, exact, fs, mknum
from ..runner import Part, _HYP_SETTINGS
from .c09 import HALF, stored

PID = "C11"
TECHNIQUE = ("model-based testing of update/lookup histories: Hypothesis list-of-steps strategy and a "
             "RuleBasedStateMachine, both replayed through one interpreter against a dict model of the converter")
RULE = ("history = converter kind (unrestricted/year/month/day), base currency, injected default date, and up to 14 steps "
        "from {update (validity spelled every documented way: int/'2020', (2020,3)/('2020','03')/'2020-03', date/"
        "'2020-03-01'; 1-4 specs over 5 currencies given as Currency or ISO code; multiples 1/10/100/7; repeated keys), "
        "update with another kind of validity, update with an invalid validity, get_rate over ordered pairs incl. a "
        "currency with itself at dates in/next to/far from the updated periods or the default date, conv(money, cur, "
        "date)}. Oracle: dict {(period, code): last (multiple, term)}; base->x stored rate, x->base its inverse, x->y "
        "quotient within the 0.5e-6 bound, missing => None; rejected updates change nothing; rate specs are passed as list, "
        "tuple, iterator or generator. Non-trivial = history with "
        ">= 2 updates of one key or >= 2 periods and a lookup needing inversion or triangulation; distinct by digest")
FLOORS = {"hist/nontrivial": (0.25, "hist/histories")}

CUR = ["EUR", "USD", "JPY", "TND", "CHF"]
KINDS = ["none", "year", "month", "day"]
_DATES = [datetime.date(2019, 12, 31), datetime.date(2020, 1, 1), datetime.date(2020, 2, 29),
          datetime.date(2020, 3, 1), datetime.date(2020, 3, 31), datetime.date(2020, 4, 1),
          datetime.date(2021, 3, 1), datetime.date(2021, 12, 31), datetime.date(1999, 7, 15)]


def _date_s(d):
    return d.isoformat()


@st.composite
def _date(draw):
    d = gen.pick(draw, (6, st.sampled_from(_DATES)),
                 (2, st.dates(datetime.date(2019, 1, 1), datetime.date(2022, 12, 31))))
    return _date_s(d)


@st.composite
def _validity(draw, kind, used=None):
    d = datetime.date.fromisoformat(draw(_date()))
    if used is not None:
        used.append(d.isoformat())
    if kind == "none":
        return ["none"]
    if kind == "year":
        return draw(st.sampled_from([["int", d.year], ["str", str(d.year)]]))
    if kind == "month":
        return draw(st.sampled_from([["tuple_int", d.year, d.month], ["tuple_str", str(d.year), f"{d.month:02d}"],
                                     ["tuple_str", str(d.year), str(d.month)], ["str", f"{d.year}-{d.month:02d}"]]))
    return draw(st.sampled_from([["date", d.isoformat()], ["str", d.isoformat()]]))


@st.composite
def _spec(draw, base):
    code = draw(st.sampled_from([c for c in CUR if c != base]))
    mult = draw(st.sampled_from([1, 1, 10, 100, 7]))
    term = Fraction(draw(st.integers(1, 10 ** 7)), 10 ** draw(st.integers(2, 5)))       # 1e-5 .. 1e5
    term = min(max(term, Fraction(1, 1000) * mult), Fraction(1000) * mult)
    return [draw(st.sampled_from([["cur", code], ["cur", code], ["code", code]])),
            draw(gen.encode(st.just(term), ("dec", "frac", "str", "float"))), ["int", str(mult)]]


@st.composite
def _step(draw, kind, base, used=None):
    sel = draw(st.integers(0, 19))
    ldate = st.one_of(st.none(), _date())
    if used:
        ldate = st.one_of(st.none(), _date(), st.sampled_from(used), st.sampled_from(used))
    if sel <= 5:
        return {"s": "update", "validity": draw(_validity(kind, used)),
                "specs": draw(st.lists(_spec(base), min_size=1, max_size=4)),
                "form": draw(st.sampled_from(["list", "list", "tuple", "iter", "gen"]))}
    if sel == 6:
        other = draw(st.sampled_from([k for k in KINDS if k != kind]))
        return {"s": "update_other_kind", "validity": draw(_validity(other)),
                "specs": draw(st.lists(_spec(base), min_size=1, max_size=2))}
    if sel == 7:
        bad = draw(st.sampled_from([["tuple_int", 2020, 13], ["str", "2020-02-30"], ["int", 0], ["str", "x"],
                                    ["str", "2020-13"], ["tuple_int", 2020, 0], ["str", "2020-1-1-1"],
                                    ["float", 2020.5], ["int", 10000]]))
        return {"s": "update_invalid", "validity": bad, "specs": draw(st.lists(_spec(base), min_size=1, max_size=2))}
    if sel <= 16:
        a = draw(st.sampled_from(CUR))
        b = gen.pick(draw, (9, st.sampled_from(CUR)), (1, st.just(a)))
        return {"s": "lookup", "a": a, "b": b, "date": draw(ldate)}
    a, b = draw(st.permutations(CUR))[:2]
    return {"s": "call", "a": a, "b": b, "date": draw(ldate),
            "amt": draw(gen.encode(gen.fractions(), ("int", "dec", "frac")))}


@st.composite
def gen_history(draw, max_steps=12):
    kind = draw(st.sampled_from(KINDS))
    base = draw(st.sampled_from(CUR))
    n = draw(st.integers(2, max_steps))
    used = []
    first = [{"s": "update", "validity": draw(_validity(kind, used)),
              "specs": draw(st.lists(_spec(base), min_size=2, max_size=4))} for _ in range(draw(st.integers(1, 3)))]
    dflt = draw(st.one_of(_date(), st.sampled_from(used)))
    return {"k": "hist", "kind": kind, "base": base, "dflt": dflt,
            "steps": first + [draw(_step(kind, base, used)) for _ in range(n)]}


# ---------------------------------------------------------------------------
# interpreter

def _mk_validity(v):
    t = v[0]
    if t == "none":
        return None
    if t in ("int", "str", "float"):
        return v[1]
    if t in ("tuple_int", "tuple_str"):
        return (v[1], v[2])
    if t == "date":
        return datetime.date.fromisoformat(v[1])
    raise ValueError(v)


def _period_of_validity(v):
    t = v[0]
    if t == "none":
        return None
    if t == "int":
        return int(v[1])
    if t == "str":
        parts_ = v[1].split("-")
        if len(parts_) == 1:
            return int(parts_[0])
        if len(parts_) == 2:
            return (int(parts_[0]), int(parts_[1]))
        return datetime.date.fromisoformat(v[1])
    if t in ("tuple_int", "tuple_str"):
        return (int(v[1]), int(v[2]))
    if t == "date":
        return datetime.date.fromisoformat(v[1])
    raise ValueError(v)


def _period_of_date(kind, d):
    return {"none": None, "year": d.year, "month": (d.year, d.month), "day": d}[kind]


class State:
    def __init__(self, hist):
        self.kind = hist["kind"]
        self.base = hist["base"]
        self.dflt = datetime.date.fromisoformat(hist["dflt"])
        self.calls = 0
        self.base_cur = Money.register_currency(self.base)

        def dflt_date():
            self.calls += 1
            return self.dflt
        self.conv = MoneyConverter(self.base_cur, get_dflt_effective_date=dflt_date)
        self.model = {}
        self.kind_set = False
        self.updates_per_key = {}
        self.periods = set()
        self.nontrivial_lookup = False


def _cur(code):
    return Money.register_currency(code)


def _mk_specs(specs):
    out = []
    for cs, term, mult in specs:
        c = _cur(cs[1]) if cs[0] == "cur" else cs[1]
        if cs[0] == "code":
            _cur(cs[1])           # an ISO code string refers to an already registered currency
        out.append((c, mknum(term), mknum(mult)))
    return out


def _check_rate(ctx, tag, what, got, ucur, tcur, true_rate):
    if not isinstance(got, ExchangeRate):
        ctx.viol(f"{tag}/type", f"{what} returned {got!r}; expected an ExchangeRate {ucur}->{tcur}")
        return None
    if got.unit_currency is not ucur or got.term_currency is not tcur:
        ctx.viol(f"{tag}/direction", f"{what} = {got!r}; expected {ucur} -> {tcur}")
        return None
    _, m, _, t = stored(got)
    if abs(t - true_rate * m) > HALF:
        ctx.viol(f"{tag}/value", f"{what} = {got!r}; true rate {fs(true_rate)} (x multiple {fs(m)} = "
                 f"{fs(true_rate * m)})")
        return None
    return F(got.rate)


def apply_step(stt: State, step, ctx, hist):
    s = step["s"]
    conv = stt.conv
    ctx.label(f"step/{s}")
    if s in ("update", "update_other_kind", "update_invalid"):
        v = step["validity"]
        ctx.label(f"validity/{v[0]}")
        specs = _mk_specs(step["specs"])
        what = f"update({_mk_validity(v)!r}, {specs!r})"
        # the signature promises Iterable[RateSpecT]: lists, tuples and one-shot iterators / generators
        form = step.get("form", "list")
        given = {"list": lambda: specs, "tuple": lambda: tuple(specs), "iter": lambda: iter(specs),
                 "gen": lambda: (x for x in specs)}[form]()
        if form != "list":
            ctx.label(f"specs_as/{form}")
            what += f" [specs given as {form}]"
        try:
            conv.update(_mk_validity(v), given)
        except ValueError as exc:
            if s == "update":
                ctx.viol(f"update/rejected/{v[0]}", f"{what} raised {type(exc).__name__}: {exc}; the validity is "
                         "spelled as documented", case=hist)
                return False
            return True
        except Exception as exc:  # noqa: BLE001
            ctx.viol(f"{s}/raises/{type(exc).__name__}", f"{what} raised {type(exc).__name__}: {exc}", case=hist)
            return False
        if s == "update_other_kind" and not stt.kind_set:
            # nothing fixed the kind yet: this update legitimately defines it -> outside this history's plan
            return False
        if s != "update":
            ctx.viol(f"{s}/accepted", f"{what} was accepted", case=hist)
            return False
        stt.kind_set = True
        p = _period_of_validity(v)
        stt.periods.add(p)
        for cs, term, mult in step["specs"]:
            key = (p, cs[1])
            stt.model[key] = (exact(mult), exact(term))
            stt.updates_per_key[key] = stt.updates_per_key.get(key, 0) + 1
            if cs[0] == "code":
                ctx.label("spec/iso_code_string")
        return True
    d = None if step["date"] is None else datetime.date.fromisoformat(step["date"])
    eff = stt.dflt if d is None else d
    p = _period_of_date(stt.kind, eff) if stt.kind_set else None
    a, b = _cur(step["a"]), _cur(step["b"])

    def base_rate(code):
        if not stt.kind_set:
            return None
        return stt.model.get((p, code))

    if s == "lookup":
        what = f"get_rate({a}, {b}, {d!r}) [base {stt.base}, default date {stt.dflt}]"
        ctx.tick()
        if d is None:
            ctx.label("lookup/default_date")
        calls0 = stt.calls
        try:
            got = conv.get_rate(a, b, d)
        except Exception as exc:  # noqa: BLE001
            if a is b:
                ctx.viol("lookup/self/raises", f"{what} raised {type(exc).__name__}: {exc}; expected a rate of one",
                         case=hist)
            else:
                ctx.viol(f"lookup/raises/{type(exc).__name__}", f"{what} raised {type(exc).__name__}: {exc}", case=hist)
            return True
        if a is b:
            r = getattr(got, "rate", got)
            try:
                ok = F(r) == 1
            except Exception:  # noqa: BLE001
                ok = False
            if not ok:
                ctx.viol("lookup/self/value", f"{what} = {got!r}; expected one", case=hist)
            return True
        if d is None and stt.kind_set and stt.kind != "none" and stt.calls == calls0:
            ctx.viol("default_date/not_called", f"{what}: the configured default-date callable was not consulted",
                     case=hist)
        if step["a"] == stt.base:
            e = base_rate(step["b"])
            if e is None:
                if got is not None:
                    ctx.viol("lookup/direct/phantom", f"{what} = {got!r}; no entry for that period", case=hist)
                return True
            if got is None:
                ctx.viol("lookup/direct/missing", f"{what} returned None; entry {e} exists for period {p}", case=hist)
                return True
            ctx.label("lookup/direct")
            direct = ExchangeRate(a, mknum(["frac", fs(e[0])]), b, mknum(["frac", fs(e[1])]))
            if _check_rate(ctx, "lookup/direct", what, got, a, b, e[1] / e[0]) is not None and got != direct:
                ctx.viol("lookup/direct/not_stored", f"{what} = {got!r}; differs from the stored {direct!r}", case=hist)
        elif step["b"] == stt.base:
            e = base_rate(step["a"])
            if e is None:
                if got is not None:
                    ctx.viol("lookup/inverse/phantom", f"{what} = {got!r}; no entry for that period", case=hist)
                return True
            if got is None:
                ctx.viol("lookup/inverse/missing", f"{what} returned None; entry {e} exists for period {p}", case=hist)
                return True
            ctx.label("lookup/inverse")
            stt.nontrivial_lookup = True
            direct = ExchangeRate(b, mknum(["frac", fs(e[0])]), a, mknum(["frac", fs(e[1])]))
            if _check_rate(ctx, "lookup/inverse", what, got, a, b, 1 / F(direct.rate)) is not None and \
                    got != direct.inverted():
                ctx.viol("lookup/inverse/not_inverted", f"{what} = {got!r}; expected {direct.inverted()!r}", case=hist)
        else:
            ea, eb = base_rate(step["a"]), base_rate(step["b"])
            if ea is None or eb is None:
                if got is not None:
                    ctx.viol("lookup/cross/phantom", f"{what} = {got!r}; a needed entry is missing", case=hist)
                return True
            if got is None:
                ctx.viol("lookup/cross/missing", f"{what} returned None; entries {ea}, {eb} exist", case=hist)
                return True
            ctx.label("lookup/cross")
            stt.nontrivial_lookup = True
            ra = F(ExchangeRate(stt.base_cur, mknum(["frac", fs(ea[0])]), a, mknum(["frac", fs(ea[1])])).rate)
            rb = F(ExchangeRate(stt.base_cur, mknum(["frac", fs(eb[0])]), b, mknum(["frac", fs(eb[1])])).rate)
            _check_rate(ctx, "lookup/cross", what, got, a, b, rb / ra)
        return True
    if s == "call":
        m = Money(mknum(step["amt"]), a)
        what = f"conv({m!r}, {b}, {d!r})"
        ctx.tick()
        try:
            rate = conv.get_rate(a, b, d)
        except Exception:  # noqa: BLE001
            return True
        try:
            got = conv(m, b, d) if d is not None else conv(m, b)
        except UnitConversionError:
            if rate is not None:
                ctx.viol("call/rejected", f"{what} raised UnitConversionError although get_rate reports {rate!r}",
                         case=hist)
            return True
        except Exception as exc:  # noqa: BLE001
            ctx.viol(f"call/raises/{type(exc).__name__}", f"{what} raised {type(exc).__name__}: {exc}", case=hist)
            return True
        if rate is None:
            ctx.viol("call/phantom", f"{what} = {got!r} although get_rate reports None", case=hist)
        elif isinstance(got, float) or F(got) != F(m.amount) * F(rate.rate):
            ctx.viol("call/value", f"{what} = {got!r}; amount x reported rate = {fs(F(m.amount) * F(rate.rate))}",
                     case=hist)
        return True
    raise ValueError(s)


def run_case(case, ctx):
    ctx.label("histories")
    stt = State(case)
    for step in case["steps"]:
        if not apply_step(stt, step, ctx, case):
            break
    if stt.nontrivial_lookup and (len(stt.periods) >= 2 or any(v >= 2 for v in stt.updates_per_key.values())):
        ctx.nontrivial()
        ctx.label("nontrivial")


# ---------------------------------------------------------------------------
# stateful machine (same interpreter; the history so far is the replayable case)

def machine_part(ctx, shard, nshards, n, sd):
    class ConverterMachine(RuleBasedStateMachine):
        def __init__(self):
            super().__init__()
            self.hist = None
            self.stt = None
            self.alive = True

        @initialize(kind=st.sampled_from(KINDS), base=st.sampled_from(CUR), dflt=_date())
        def start(self, kind, base, dflt):
            self.hist = {"k": "hist", "kind": kind, "base": base, "dflt": dflt, "steps": []}
            self.stt = State(self.hist)
            ctx.evaluations += 1
            ctx.label("histories")

        @rule(data=st.data())
        def step(self, data):
            if not self.alive:
                return
            stp = data.draw(_step(self.hist["kind"], self.hist["base"]))
            self.hist["steps"].append(stp)
            ctx.case = dict(self.hist, steps=list(self.hist["steps"]))
            self.alive = apply_step(self.stt, stp, ctx, ctx.case)

        def teardown(self):
            if self.stt is not None and self.stt.nontrivial_lookup and len(self.stt.periods) >= 2:
                from ..runner import digest
                ctx.digests.add(digest(self.hist))
                ctx.label("nontrivial")
                if len(ctx.samples) < 2:
                    ctx.samples.append(self.hist)

    run_state_machine_as_test(
        hseed(sd)(ConverterMachine),
        settings=settings(max_examples=n, stateful_step_count=14, **_HYP_SETTINGS))


def parts(tier):
    big = tier == "thorough"
    return [Part("hist", "hyp", strategy=gen_history(30 if big else 12), n=300000 if big else 16000),
            Part("machine", "custom", custom=machine_part, n=40000 if big else 1600, shards=16)]

"""C08 — money never mixes currencies implicitly and follows ISO 4217."""
import itertools
import operator
from fractions import Fraction

from .. import env  # noqa: F401
from hypothesis import strategies as st

from quantity import Quantity, UndefinedResultError, UnitConversionError
from quantity.money import Currency, Money, get_currency_info

import quantity.predefined as _pre  # noqa: F401  (foreign unit symbols for the unknown-code part)
from .. import gen, iso, lab  # noqa: F401
from ..model import F, exact, fs, mknum, round_to
from ..runner import Part

PID = "C08"
TECHNIQUE = ("exhaustive enumeration of the bundled ISO 4217 table and of ordered currency pairs + Hypothesis amounts, "
             "unknown codes and user-declared currencies, against an independent parse of the XML")
LEVEL_TEXT = ("Exhaustive over the 167 entries of the bundled ISO table (independent XML parse) and, in the thorough tier, over all 27 722 ordered currency pairs; generated amounts, unknown codes and user currencies. Exploration for amounts and user parameters.")
RULE = ("table part: all 167 functional currencies enumerated (registration twice, name, smallest fraction, rounding of "
        "tie amounts); pair part: ordered pairs of distinct currencies (all 27 722 in the thorough tier, a fixed stride "
        "sample of ~2 000 in the quick tier) x {+,-,/,<,<=,>,>=,==,!=,convert, Money*Money, unit-level / and <, text with "
        "another currency} with generated amounts, no converter registered (asserted); same-currency arithmetic with "
        "exact expected values; unknown codes (random 3-letter strings outside the table, lower case, the 13 "
        "non-functional X-codes); user currencies with valid minor unit / smallest fraction combinations. Oracle: "
        "independent xml.etree parse of iso_4217.xml. Non-trivial = pair of distinct currencies, table entry, unknown "
        "code or user currency; distinct by digest")

CODES = sorted(iso.TABLE)
NONFUNC = [c for c in iso.all_codes_in_file() if c not in iso.TABLE]
_ctr = itertools.count(1)


def enum_table(shard, nshards):
    for i, code in enumerate(CODES):
        if i % nshards == shard:
            yield {"k": "entry", "code": code}
    if shard == 0:
        yield {"k": "table_size"}
        for c in NONFUNC:
            yield {"k": "unknown", "code": c}


def enum_pairs_factory(stride):
    def it(shard, nshards):
        i = 0
        for a in CODES:
            for b in CODES:
                if a == b:
                    continue
                i += 1
                if i % stride:
                    continue
                if (i // stride) % nshards == shard:
                    yield {"k": "pair", "a": a, "b": b, "x": ["dec", "5/2"], "y": ["int", "3"]}
    return it


@st.composite
def gen_pair(draw):
    a, b = draw(st.permutations(CODES))[:2]
    return {"k": "pair", "a": a, "b": b, "x": draw(gen.encode(gen.fractions(), ("int", "dec", "frac", "float"))),
            "y": draw(gen.encode(gen.fractions(allow_zero=False), ("int", "dec", "frac")))}


@st.composite
def gen_same(draw):
    a = draw(st.sampled_from(CODES))
    return {"k": "same", "a": a, "x": draw(gen.encode(gen.fractions(), ("int", "dec", "frac"))),
            "y": draw(gen.encode(gen.fractions(allow_zero=False), ("int", "dec", "frac"))),
            "kk": draw(gen.encode(gen.fractions(allow_zero=False), ("int", "dec", "frac")))}


@st.composite
def gen_unknown(draw):
    sel = draw(st.integers(0, 4))
    letters = "ABCDEFGHIJKLMNOPQRSTUVWXYZ"
    if sel == 4:
        # symbols of existing units of OTHER quantity types are not currency codes either
        return {"k": "unknown", "code": draw(st.sampled_from(["kg", "m", "km/h", "B", "°C", "kWh", "lc", "klc"]))}
    if sel == 0:
        code = draw(st.sampled_from(CODES)).lower()
    elif sel == 1:
        code = draw(st.sampled_from(NONFUNC))
    elif sel == 2:
        code = draw(st.text(alphabet=letters, min_size=3, max_size=3).filter(lambda c: c not in iso.TABLE))
    else:
        code = draw(st.sampled_from(["", "EU", "EURO", " EUR", "EUR ", "978", "€"]))
    return {"k": "unknown", "code": code}


@st.composite
def gen_user(draw):
    how = draw(st.sampled_from(["default", "minor", "fraction", "both"]))
    c = {"k": "user", "how": how, "x": draw(gen.encode(gen.fractions(), ("int", "dec", "frac", "float")))}
    if how == "minor":
        c["minor"] = draw(st.integers(0, 6))
    elif how == "fraction":
        n = draw(st.sampled_from([2, 4, 5, 8, 10, 20, 25, 40, 50, 100, 1000, 200]))
        c["sf"] = draw(st.sampled_from(["dec", "str", "float"]) if n in (2, 4, 8) else st.sampled_from(["dec", "str"]))
        c["sfv"] = fs(Fraction(1, n))
    elif how == "both":
        m = draw(st.integers(1, 5))
        k = draw(st.sampled_from([1, 5, 25] if m >= 2 else [1, 5]))
        c["minor"] = m
        c["sfv"] = fs(Fraction(k, 10 ** m))
        c["sf"] = draw(st.sampled_from(["dec", "str"]))
    return c


def parts(tier):
    big = tier == "thorough"
    return [
        Part("table", "enum", enum=enum_table, exhaustive=True, shards=16),
        Part("pairs", "enum", enum=enum_pairs_factory(1 if big else 13), exhaustive=big, shards=32),
        Part("pairs_gen", "hyp", strategy=gen_pair(), n=100000 if big else 5000),
        Part("same", "hyp", strategy=gen_same(), n=100000 if big else 6000),
        Part("unknown", "hyp", strategy=gen_unknown(), n=20000 if big else 2000),
        Part("user", "hyp", strategy=gen_user(), n=40000 if big else 3000),
    ]


def _no_converter(ctx, where):
    if list(Money.registered_converters()):
        raise AssertionError(f"harness: a money converter is registered {where}")


def _raises(ctx, tag, what, fn, exc_type):
    try:
        r = fn()
    except exc_type:
        return
    except Exception as exc:  # noqa: BLE001
        ctx.viol(f"{tag}/raises/{type(exc).__name__}", f"{what} raised {type(exc).__name__}: {exc}; expected "
                 f"{exc_type.__name__}")
        return
    ctx.viol(f"{tag}/returned", f"{what} returned {r!r}; expected {exc_type.__name__}")


def _expect_money(ctx, tag, what, res, cur, want):
    if type(res) is not Money or res.unit is not cur:
        ctx.viol(f"{tag}/type_unit", f"{what} = {res!r}; expected Money in {cur}")
    elif F(res.amount) != want:
        ctx.viol(f"{tag}/value", f"{what} = {res!r}; expected {fs(want)}")


def run_case(case, ctx):
    k = case["k"]
    ctx.label(k)
    _no_converter(ctx, "before the case")
    if k == "table_size":
        ctx.nontrivial()
        if len(CODES) != 167:
            ctx.viol("table/size", f"independent parse finds {len(CODES)} functional currencies")
        return
    if k == "entry":
        code = case["code"]
        name, num, minor, countries = iso.TABLE[code]
        ctx.nontrivial()
        try:
            c1 = Money.register_currency(code)
            c2 = Money.register_currency(code)
        except Exception as exc:  # noqa: BLE001
            ctx.viol(f"entry/register/{type(exc).__name__}", f"register_currency({code!r}) raised {type(exc).__name__}: {exc}")
            return
        if c1 is not c2 or Money.get_unit_by_symbol(code) is not c1 or not isinstance(c1, Currency):
            ctx.viol("entry/idempotent", f"register_currency({code!r}) twice gave {c1!r} / {c2!r}")
        if c1.name != name or c1.symbol != code or c1.iso_code != code:
            ctx.viol("entry/name", f"{code}: name {c1.name!r}, table says {name!r}")
        sf = Fraction(1, 10 ** minor)
        if F(c1.smallest_fraction) != sf or F(c1.quantum) != sf:
            ctx.viol("entry/fraction", f"{code}: smallest fraction {c1.smallest_fraction}, table minor units {minor}")
            return
        info = get_currency_info(code)
        if info[0] != code or info[1] != num or info[2] != name or info[3] != minor or \
                sorted(info[4]) != sorted(countries):
            ctx.viol("entry/info", f"get_currency_info({code!r}) = {info!r}; table: {(name, num, minor)}")
        for amt in (Fraction(5, 2) * sf, Fraction(-3, 2) * sf, Fraction(1, 3), Fraction(123456789, 1000) + sf / 2,
                    Fraction(7) * sf):
            ctx.tick()
            for what, res in ((f"Money({fs(amt)}, {code})", Money(amt, c1)), (f"{fs(amt)} * {code}", amt * c1),
                              (f"Quantity('{amt.numerator}/{amt.denominator} {code}')",
                               Quantity(f"{amt.numerator}/{amt.denominator} {code}"))):
                _expect_money(ctx, "entry/rounding", what, res, c1, round_to(amt, sf, "ROUND_HALF_EVEN"))
        return
    if k == "unknown":
        ctx.nontrivial()
        code = case["code"]
        if code.upper() in iso.TABLE and code != code.upper():
            Money.register_currency(code.upper())     # a registered currency must not make its misspelling known
        before = len(Money.units())
        _raises(ctx, "unknown", f"Money.register_currency({code!r})", lambda: Money.register_currency(code), ValueError)
        _raises(ctx, "unknown/info", f"get_currency_info({code!r})", lambda: get_currency_info(code), ValueError)
        if len(Money.units()) != before or code in Money:
            ctx.viol("unknown/registered", f"rejected code {code!r} left a unit behind")
        return
    if k == "user":
        ctx.nontrivial()
        sym = f"Q{next(_ctr)}X{id(case) % 7}"
        how = case["how"]
        kw = {}
        if "minor" in case:
            kw["minor_unit"] = case["minor"]
        if "sfv" in case:
            fr = Fraction(case["sfv"])
            kw["smallest_fraction"] = {"dec": lambda: mknum(["dec", case["sfv"]]),
                                       "str": lambda: str(mknum(["dec", case["sfv"]])),
                                       "float": lambda: float(fr)}[case["sf"]]()
        ctx.label(f"user/{how}")
        try:
            cur = Money.new_unit(sym, f"user currency {sym}", **kw)
        except Exception as exc:  # noqa: BLE001
            ctx.viol(f"user/{how}/{type(exc).__name__}", f"Money.new_unit({sym!r}, **{kw!r}) raised "
                     f"{type(exc).__name__}: {exc}")
            return
        want = Fraction(case["sfv"]) if "sfv" in case else Fraction(1, 10 ** case.get("minor", 2))
        if not isinstance(cur, Currency) or F(cur.smallest_fraction) != want or F(cur.quantum) != want:
            ctx.viol(f"user/{how}/fraction", f"Money.new_unit({sym!r}, **{kw!r}).smallest_fraction = "
                     f"{cur.smallest_fraction}, expected {fs(want)}")
            return
        x = exact(case["x"])
        res = Money(mknum(case["x"]), cur)
        _expect_money(ctx, f"user/{how}/rounding", f"Money({mknum(case['x'])!r}, {sym})", res, cur,
                      round_to(x, want, "ROUND_HALF_EVEN"))
        if Money.register_currency(sym) is not cur:
            ctx.viol("user/lookup", f"register_currency({sym!r}) does not return the user currency")
        return
    a = Money.register_currency(case["a"])
    sa = iso.fraction_of(case["a"])
    ma = Money(mknum(case["x"]), a)
    xa = F(ma.amount)
    if xa != round_to(exact(case["x"]), sa, "ROUND_HALF_EVEN"):
        ctx.viol("amount/rounding", f"Money({mknum(case['x'])!r}, {a}) = {ma!r}")
    if k == "same":
        mb = Money(mknum(case["y"]), a)
        xb = F(mb.amount)
        kobj, kv = mknum(case["kk"]), exact(case["kk"])
        ctx.nontrivial(xa != xb)
        _expect_money(ctx, "same/+", f"{ma!r} + {mb!r}", ma + mb, a, xa + xb)
        _expect_money(ctx, "same/-", f"{ma!r} - {mb!r}", ma - mb, a, xa - xb)
        _expect_money(ctx, "same/*k", f"{ma!r} * {kobj!r}", ma * kobj, a, round_to(xa * kv, sa, "ROUND_HALF_EVEN"))
        _expect_money(ctx, "same//k", f"{ma!r} / {kobj!r}", ma / kobj, a, round_to(xa / kv, sa, "ROUND_HALF_EVEN"))
        _expect_money(ctx, "same/convert", f"{ma!r}.convert({a})", ma.convert(a), a, xa)
        _expect_money(ctx, "same/neg", f"-{ma!r}", -ma, a, -xa)
        if xb != 0:
            r = ma / mb
            if isinstance(r, Quantity) or F(r) != xa / xb:
                ctx.viol("same/ratio", f"{ma!r} / {mb!r} = {r!r}, expected the number {fs(xa / xb)}")
        for name, op in (("<", operator.lt), ("<=", operator.le), (">", operator.gt), (">=", operator.ge),
                         ("==", operator.eq), ("!=", operator.ne)):
            if op(ma, mb) is not op(xa, xb):
                ctx.viol(f"same/{name}", f"{ma!r} {name} {mb!r} is {op(ma, mb)}")
        _raises(ctx, "same/money*money", f"{ma!r} * {mb!r}", lambda: ma * mb, UndefinedResultError)
        return
    # distinct currencies
    b = Money.register_currency(case["b"])
    mb = Money(mknum(case["y"]), b)
    ctx.nontrivial()
    if iso.TABLE[case["a"]][2] != iso.TABLE[case["b"]][2]:
        ctx.label("different_minor_units")
    for x, y in ((ma, mb), (mb, ma)):
        for name, fn in (("+", lambda: x + y), ("-", lambda: x - y), ("/", lambda: x / y), ("<", lambda: x < y),
                         ("<=", lambda: x <= y), (">", lambda: x > y), (">=", lambda: x >= y),
                         ("convert", lambda: x.convert(y.unit)), ("q/unit", lambda: x / y.unit),
                         ("unit/unit", lambda: x.unit / y.unit), ("unit<unit", lambda: x.unit < y.unit),
                         ("unit>=unit", lambda: x.unit >= y.unit),
                         ("text", lambda: Money(f"{x.amount} {x.unit.symbol}", y.unit)),
                         ("equiv", lambda: (_ for _ in ()).throw(UnitConversionError("%s%s", "", ""))
                          if x.equiv_amount(y.unit) is None else x.equiv_amount(y.unit))):
            ctx.tick()
            _raises(ctx, f"mixed/{name}", f"{name} on {x!r}, {y!r}", fn, UnitConversionError)
        if (x == y) is not False or (x != y) is not True:
            ctx.viol("mixed/eq", f"{x!r} == {y!r} is not False")
        if (x.unit == y.unit) is not False or (x.unit != y.unit) is not True:
            ctx.viol("mixed/unit_eq", f"{x.unit!r} == {y.unit!r} is not False")
        _raises(ctx, "mixed/money*money", f"{x!r} * {y!r}", lambda: x * y, UndefinedResultError)
        _raises(ctx, "mixed/unit*unit", f"{x.unit!r} * {y.unit!r}", lambda: x.unit * y.unit, UndefinedResultError)
    _no_converter(ctx, "after the case")

"""C14 — table (affine) converters are exact, invertible and mutually consistent."""
import itertools
import operator
from fractions import Fraction

from .. import env  # noqa: F401
from hypothesis import strategies as st

from decimalfp import Decimal

from quantity import Quantity, QuantityMeta, TableConverter, Unit, UnitConversionError
import quantity.predefined as pre

from .. import gen, refdata
from ..model import F, exact, fs, mknum
from ..runner import Part

PID = "C14"
TECHNIQUE = ("exhaustive enumeration of temperature unit pairs/triples and fixed points + Hypothesis amounts and "
             "generated user conversion tables in fresh types, against an independent affine model")
RULE = ("temperature part: all 9 ordered pairs and 27 triples enumerated with probe amounts, the five defining fixed "
        "points, and Hypothesis amounts of every kind; comparison operators across units; user part: per case a fresh "
        "type without reference unit with 2-5 units (some declared as multiples of others) and a table in mapping or list form with rows for a subset of ordered "
        "pairs (one direction only with arbitrary factor/offset, or both directions generated from hidden per-unit "
        "affine maps), probes over all ordered pairs incl. pairs without any row. Oracle: own table lookup (forward "
        "a*f+o, reverse (a-o)/f, else UnitConversionError) and the constants 9/5, 32, 273.15, 459.67 from the reference "
        "table. Non-trivial = conversion between different units (a reverse-direction or missing-row probe counts "
        "separately); distinct by digest")

TU = refdata.TEMP_UNITS
OPS = {"<": operator.lt, "<=": operator.le, ">": operator.gt, ">=": operator.ge, "==": operator.eq, "!=": operator.ne}
_ctr = itertools.count(1)

FIXED = [("°C", 0, "K", Fraction(27315, 100)), ("°C", 0, "°F", 32), ("°C", -40, "°F", -40),
         ("K", 0, "°F", Fraction(-45967, 100)), ("K", 0, "°C", Fraction(-27315, 100)), ("°F", 32, "K", Fraction(27315, 100)),
         ("°C", 100, "°F", 212), ("°F", Fraction(-45967, 100), "K", 0)]


def enum_temp(shard, nshards):
    i = 0
    for u in TU:
        for v in TU:
            for w in TU:
                i += 1
                if i % nshards == shard:
                    for a in (["int", "0"], ["frac", "-40"], ["dec", "7463/100"], ["frac", "1/3"]):
                        yield {"k": "temp", "u": u, "v": v, "w": w, "amt": a, "amt2": ["dec", "5/2"]}
    if shard == 0:
        for j in range(len(FIXED)):
            yield {"k": "fixed", "i": j}


@st.composite
def gen_temp(draw):
    u, v, w = (draw(st.sampled_from(TU)) for _ in range(3))
    x = draw(gen.fractions())
    kinds = ("int", "dec", "decp", "frac", "float")
    # second amount: equal, close or random (in unit v) for the comparison clause
    sel = draw(st.integers(0, 2))
    y = refdata.temp_convert(x, u, v)
    if sel == 1:
        y = y + Fraction(draw(st.sampled_from([-1, 1])), 10 ** draw(st.integers(1, 30)))
    elif sel == 2:
        y = draw(gen.fractions())
    return {"k": "temp", "u": u, "v": v, "w": w, "amt": draw(gen.encode(st.just(x), kinds)),
            "amt2": draw(gen.encode(st.just(y), ("dec", "frac")))}


@st.composite
def gen_user(draw):
    n = draw(st.integers(2, 5))
    consistent = draw(st.booleans())
    rows = []
    pairs = [(i, j) for i in range(n) for j in range(n) if i != j]
    kinds = ("int", "dec", "frac")
    if consistent:
        maps = [(draw(gen.fractions(positive=True)), draw(gen.fractions())) for _ in range(n)]
        chosen = draw(st.lists(st.sampled_from(pairs), min_size=1, max_size=len(pairs), unique=True))
        for i, j in chosen:
            (ai, bi), (aj, bj) = maps[i], maps[j]
            rows.append([i, j, draw(gen.encode(st.just(ai / aj), kinds)), draw(gen.encode(st.just((bi - bj) / aj), kinds))])
    else:
        und = [(i, j) for i, j in pairs if i < j]
        chosen = draw(st.lists(st.sampled_from(und), min_size=1, max_size=len(und), unique=True))
        for i, j in chosen:
            if draw(st.booleans()):
                i, j = j, i
            f = draw(gen.fractions(positive=True))
            if draw(st.integers(0, 4)) == 0:
                f = -f
            rows.append([i, j, draw(gen.encode(st.just(f), kinds)), draw(gen.encode(gen.fractions(), kinds))])
    # some units are declared as multiples of earlier ones (mK = 0.001 K): they carry a scale of their own, but in a
    # type without reference unit only the table converts, so they are units like any other
    defs = [None] * n
    for i in range(1, n):
        if draw(st.integers(0, 2)) == 0:
            defs[i] = [draw(st.integers(0, i - 1)),
                       draw(st.sampled_from([["int", "1"], ["int", "1000"], ["dec", "1/1000"], ["frac", "1/3"],
                                             ["int", "60"]]))]
    probes = [[i, j, draw(gen.encode(gen.fractions(), ("int", "dec", "frac", "decp")))]
              for i, j in draw(st.lists(st.sampled_from(pairs + [(0, 0)]), min_size=2, max_size=8))]
    triples = [[draw(st.integers(0, n - 1)) for _ in range(3)] for _ in range(draw(st.integers(0, 3)))]
    return {"k": "user", "n": n, "form": draw(st.sampled_from(["map", "list", "list", "proxy", "chain", "userdict"])),
            "rows": rows,
            "consistent": consistent, "probes": probes, "triples": triples, "defs": defs,
            "tamt": draw(gen.encode(gen.fractions(), ("dec", "frac")))}


def parts(tier):
    big = tier == "thorough"
    return [Part("temp_enum", "enum", enum=enum_temp, exhaustive=True, shards=16),
            Part("temp", "hyp", strategy=gen_temp(), n=300000 if big else 20000),
            Part("user", "hyp", strategy=gen_user(), n=150000 if big else 10000, chunk=2500)]


def _conv(ctx, tag, q, v, want, what):
    try:
        res = q.convert(v)
    except Exception as exc:  # noqa: BLE001
        ctx.viol(f"{tag}/raises/{type(exc).__name__}", f"{what} raised {type(exc).__name__}: {exc}")
        return None
    if type(res) is not type(q) or res.unit is not v:
        ctx.viol(f"{tag}/type_unit", f"{what} = {res!r}")
        return None
    if isinstance(res.amount, float):
        ctx.viol(f"{tag}/float", f"{what} holds a float")
        return None
    if F(res.amount) != want:
        ctx.viol(f"{tag}/value", f"{what} = {fs(F(res.amount))} {v}; exact value {fs(want)}")
        return None
    return res


def run_case(case, ctx):
    k = case["k"]
    ctx.label(k)
    if k == "fixed":
        u, x, v, y = FIXED[case["i"]]
        ctx.nontrivial()
        q = Quantity(Fraction(x), Unit(u))
        _conv(ctx, "fixed", q, Unit(v), Fraction(y), f"{q!r}.convert({v})")
        p = Quantity(Fraction(y), Unit(v))
        if not (q == p) or (q != p) or (q < p) or (q > p) or not (q <= p):
            ctx.viol("fixed/equal", f"{q!r} and {p!r} are the same temperature but do not compare equal")
        return
    if k == "temp":
        u, v, w = Unit(case["u"]), Unit(case["v"]), Unit(case["w"])
        x = exact(case["amt"])
        q = Quantity(mknum(case["amt"]), u)
        if u is not v:
            ctx.nontrivial()
        direct = _conv(ctx, "temp", q, v, refdata.temp_convert(x, case["u"], case["v"]), f"{q!r}.convert({v})")
        if direct is None:
            return
        back = _conv(ctx, "temp/back", direct, u, x, f"{direct!r}.convert({u})")
        mid = _conv(ctx, "temp", q, w, refdata.temp_convert(x, case["u"], case["w"]), f"{q!r}.convert({w})")
        if mid is not None:
            via = _conv(ctx, "temp/via", mid, v, refdata.temp_convert(x, case["u"], case["v"]),
                        f"{mid!r}.convert({v})")
            if via is not None and not (via == direct):
                ctx.viol("temp/via_equal", f"{q!r} via {w} = {via!r}, direct {direct!r}")
        if not (direct == q) or not (q == direct):
            ctx.viol("temp/equal", f"{q!r}.convert({v}) = {direct!r} does not compare equal to the original")
        # a quantity divided by a unit of its type is its amount in that unit (C02's cancelling quotient)
        try:
            quot = q / v
        except Exception as exc:  # noqa: BLE001
            ctx.viol(f"temp/div_unit/{type(exc).__name__}", f"{q!r} / {v} raised {type(exc).__name__}: {exc}")
        else:
            if isinstance(quot, (float, Quantity)) or F(quot) != F(direct.amount):
                ctx.viol("temp/div_unit/value", f"{q!r} / {v} = {quot!r}; {q!r} is {direct!r}")
        # comparison across units
        y = exact(case["amt2"])
        p = Quantity(mknum(case["amt2"]), v)
        kx = refdata.temp_convert(x, case["u"], "K")
        ky = refdata.temp_convert(y, case["v"], "K")
        for name, op in OPS.items():
            ctx.tick()
            try:
                got = op(q, p)
            except Exception as exc:  # noqa: BLE001
                ctx.viol(f"temp/cmp/{name}/raises/{type(exc).__name__}", f"{q!r} {name} {p!r} raised "
                         f"{type(exc).__name__}: {exc}")
                continue
            if got is not op(kx, ky):
                ctx.viol(f"temp/cmp/{name}", f"{q!r} {name} {p!r} is {got}; in kelvin {fs(kx)} {name} {fs(ky)} is "
                         f"{op(kx, ky)}")
        return
    # user tables
    n = next(_ctr)
    T = QuantityMeta(f"C14T{n}", (Quantity,), {})
    units = []
    defs = case.get("defs") or [None] * case["n"]
    for i in range(case["n"]):
        if defs[i] is None:
            units.append(T.new_unit(f"c14u{n}_{i}"))
            continue
        k_of, f = defs[i]
        ctx.label("scaled_unit")
        try:
            units.append(T.new_unit(f"c14u{n}_{i}", f"unit {i}", mknum(f) * units[k_of]))
        except Exception as exc:  # noqa: BLE001
            ctx.viol(f"user/declare/{type(exc).__name__}", f"declaring a unit as {exact(f)} x {units[k_of]} in a type "
                     f"without reference unit raised {type(exc).__name__}: {exc}")
            return
    table = {}
    for i, j, f, o in case["rows"]:
        table[(i, j)] = (exact(f), exact(o))
    form = case["form"]
    as_map = {(units[i], units[j]): (mknum(f), mknum(o)) for i, j, f, o in case["rows"]}
    if form == "map":
        conv = TableConverter(as_map)
    elif form == "proxy":
        # any Mapping is a table
        import types
        conv = TableConverter(types.MappingProxyType(as_map))
    elif form == "chain":
        import collections
        ks = list(as_map)
        conv = TableConverter(collections.ChainMap({k: as_map[k] for k in ks[::2]}, {k: as_map[k] for k in ks[1::2]}))
    elif form == "userdict":
        import collections
        conv = TableConverter(collections.UserDict(as_map))
    else:
        conv = TableConverter([(units[i], units[j], mknum(f), mknum(o)) for i, j, f, o in case["rows"]])
        # a second table for the same unit pairs that is never registered (a rule of thumb kept for display
        # purposes, say) is none of this type's business
        TableConverter([(units[i], units[j], mknum(f) + 1, mknum(o) - 1) for i, j, f, o in case["rows"]])
        ctx.label("decoy_table")
    T.register_converter(conv)
    ctx.label(f"form/{case['form']}")
    ctx.label("consistent" if case["consistent"] else "one_direction")

    def model(i, j, a):
        if i == j:
            return a
        if (i, j) in table:
            f, o = table[(i, j)]
            return a * f + o
        if (j, i) in table:
            f, o = table[(j, i)]
            return (a - o) / f
        return None

    for i, j, amt in case["probes"]:
        a = exact(amt)
        q = T(mknum(amt), units[i])
        want = model(i, j, a)
        ctx.tick()
        what = f"{q!r}.convert({units[j]}) with rows {sorted(table)}"
        if want is None:
            ctx.nontrivial()
            ctx.label("probe/no_row")
            try:
                res = q.convert(units[j])
            except UnitConversionError:
                pass
            except Exception as exc:  # noqa: BLE001
                ctx.viol(f"user/norow/{type(exc).__name__}", f"{what} raised {type(exc).__name__}: {exc}")
            else:
                ctx.viol("user/norow/returned", f"{what} = {res!r}; no row applies, UnitConversionError expected")
            for name, fn in (("<", lambda: q < T(1, units[j])), ("+", lambda: q + T(1, units[j]))):
                try:
                    fn()
                except UnitConversionError:
                    pass
                except Exception as exc:  # noqa: BLE001
                    ctx.viol(f"user/norow/{name}/{type(exc).__name__}", f"{name} without a row raised {type(exc).__name__}")
                else:
                    ctx.viol(f"user/norow/{name}/returned", f"{name} across units without a row returned a value")
            if (q == T(1, units[j])) is not False:
                ctx.viol("user/norow/eq", "== across units without a row is not False")
            continue
        if i != j:
            ctx.nontrivial()
            ctx.label("probe/forward" if (i, j) in table else "probe/reverse")
        res = _conv(ctx, "user/forward" if (i, j) in table or i == j else "user/reverse", q, units[j], want, what)
        if res is None:
            continue
        back_want = model(j, i, want)
        if back_want is not None and (case["consistent"] or (j, i) not in table or (i, j) not in table):
            _conv(ctx, "user/roundtrip", res, units[i], a, f"{res!r}.convert({units[i]}) (round trip)")
        if not (res == q):
            ctx.viol("user/equal", f"{what} = {res!r} does not compare equal to the original")
        # ordering across units, for order-preserving rows only (with a negative factor the two operands'
        # units give opposite answers and the property does not say which one counts)
        if i != j:
            f = table[(i, j)][0] if (i, j) in table else table[(j, i)][0]
            both = (i, j) in table and (j, i) in table
            if f > 0 and (case["consistent"] or not both):
                for delta in (-1, 0, 1):
                    p = T(mknum(["frac", fs(want + delta)]), units[j])
                    for name, op in OPS.items():
                        ctx.tick()
                        try:
                            got = op(q, p)
                        except Exception as exc:  # noqa: BLE001
                            ctx.viol(f"user/cmp/{name}/raises/{type(exc).__name__}", f"{q!r} {name} {p!r} raised "
                                     f"{type(exc).__name__}: {exc}")
                            continue
                        if got is not op(want, want + delta):
                            ctx.viol(f"user/cmp/{name}", f"{q!r} {name} {p!r} is {got}; {q!r} is {fs(want)} {units[j]}")
    if case["consistent"]:
        a = exact(case["tamt"])
        for i, j, kk in case["triples"]:
            q = T(mknum(case["tamt"]), units[i])
            d, m1 = model(i, kk, a), model(i, j, a)
            if d is None or m1 is None or model(j, kk, m1) is None:
                continue
            ctx.tick()
            ctx.label("triangle")
            r1 = _conv(ctx, "user/tri", q, units[j], m1, f"{q!r}.convert({units[j]})")
            if r1 is None:
                continue
            r2 = _conv(ctx, "user/tri", r1, units[kk], d, f"{r1!r}.convert({units[kk]}) (via {units[j]})")
            r3 = _conv(ctx, "user/tri", q, units[kk], d, f"{q!r}.convert({units[kk]}) (direct)")
            if r2 is not None and r3 is not None and not (r2 == r3):
                ctx.viol("user/tri/equal", f"via {units[j]}: {r2!r}, direct: {r3!r}")

"""C07 — term algebra is an exact commutative group with a canonical form."""
from fractions import Fraction
from numbers import Rational

from .. import env  # noqa: F401
from hypothesis import strategies as st

from decimalfp import Decimal

from quantity import Unit
from quantity.term import Term
import quantity.predefined as pre  # noqa: F401
from quantity.money import Money

from .. import cat, gen, refdata
from ..model import F, exact, fs, mknum
from ..runner import Part

PID = "C07"
TECHNIQUE = ("Hypothesis generated-input search over terms, pairs and triples of terms against a denotational model "
             "(rational factor + exponent map over base elements), with metamorphic permutation/regrouping relations")
RULE = ("terms of length 0..8 over (i) real units: base, mutually convertible, nested derived (N, J, kWh, lab units), "
        "non-convertible units of one type (°C/°F/K, currencies) and (ii) a test-local element class implementing the "
        "documented element protocol; numeric items of every rational kind (int, Decimal, Fraction) with exponents "
        "-4..4 incl. 0 and Python ints with negative exponents; pairs/triples; scalar forms. Oracle: denotation "
        "den(t) = (Fraction, {base element: int}) computed by an independent recursive expansion; equality <=> equal "
        "denotation, == => equal hash, group operations, normal-form shape, idempotence, no float anywhere; every "
        "permutation/regrouping must give an equal term with equal hash. Non-trivial = >= 2 items with a derived or "
        "convertible element, or a numeric item with exponent != 1; distinct by digest")

# ---------------------------------------------------------------------------
# test-local elements (documented NonNumTermElem protocol)


class E:
    """Element: base (no definition) or defined as factor * product of other elements."""

    def __init__(self, name, key, defn=None):
        self.name, self.key, self.defn = name, key, defn     # defn: [(E | Rational, exp)]

    def is_base_elem(self):
        return self.defn is None

    @property
    def definition(self):
        return Term([(self, 1)]) if self.defn is None else Term(self.defn)

    @property
    def normalized_definition(self):
        return self.definition.normalized()

    def norm_sort_key(self):
        return self.key

    def _den(self):
        if self.defn is None:
            return Fraction(1), {self.name: 1}
        return den_items(self.defn)

    def _get_factor(self, other):
        if isinstance(other, E):
            fs_, ms = self._den()
            fo, mo = other._den()
            if ms == mo and len(ms) == 1 and list(ms.values()) == [1]:
                r = fs_ / fo
                return Decimal(r) if _terminating(r) else r
        raise TypeError

    def __repr__(self):
        return f"E({self.name})"

    __str__ = __repr__


def _terminating(fr):
    d = fr.denominator
    while d % 2 == 0:
        d //= 2
    while d % 5 == 0:
        d //= 5
    return d == 1


_x, _y, _z = E("x", 101), E("y", 102), E("z", 103)
_p, _q = E("p", 104), E("q", 104)          # same sort key, not convertible (like °C / °F)
ELEMS = {
    "x": _x, "y": _y, "z": _z, "p": _p, "q": _q,
    "P": E("P", 104),                      # differs from "p" in case only

    "10x": E("10x", 101, [(10, 1), (_x, 1)]),
    "x/4": E("x/4", 101, [(Decimal("0.25"), 1), (_x, 1)]),
    "x/3": E("x/3", 101, [(Fraction(1, 3), 1), (_x, 1)]),
    "60y": E("60y", 102, [(60, 1), (_y, 1)]),
}
ELEMS["w"] = E("w", 105, [(_x, 1), (_y, -2)])                       # compound
ELEMS["kw"] = E("kw", 105, [(1000, 1), (ELEMS["w"], 1)])            # scaled compound
ELEMS["v"] = E("v", 106, [(ELEMS["w"], 1), (ELEMS["10x"], 1)])      # nested

# derived units of a type without reference unit (price per lc): equal scale, different base units
from quantity import Quantity as _Q, QuantityMeta as _QM  # noqa: E402
from .. import lab as _lab  # noqa: E402
_EUR, _USD = Money.register_currency("EUR"), Money.register_currency("USD")
C07P = _QM("C07P", (_Q,), {}, define_as=Money / _lab.LabC)
_P_UNITS = {
    C07P.derive_unit_from(_EUR, _lab.LC, symbol="EUR/lc").symbol: (Fraction(1), {"EUR": 1, "lc": -1}),
    C07P.derive_unit_from(_USD, _lab.LC, symbol="USD/lc").symbol: (Fraction(1), {"USD": 1, "lc": -1}),
    C07P.derive_unit_from(_EUR, _lab.LC_K, symbol="EUR/klc").symbol: (Fraction(1, 1000), {"EUR": 1, "lc": -1}),
    C07P.derive_unit_from(_USD, _lab.LC_C, symbol="USD/clc").symbol: (Fraction(100), {"USD": 1, "lc": -1}),
}

UNIT_SYMS = list(_P_UNITS) + ["m", "km", "cm", "in", "mi", "s", "h", "min", "kg", "g", "lb", "N", "J", "W", "kW", "kWh", "Ws", "J/m",
             "m²", "ha", "l", "m³", "km/h", "Hz", "B", "kB", "b/s", "lc", "klc", "ilc", "ld", "hld", "lcd", "tlcd",
             "°C", "°F", "K"]
CUR = ["EUR", "USD"]

_BASE_REF = {"Mass": "kg", "Length": "m", "Duration": "s", "DataVolume": "B", "LabA": "la", "LabB": "lb_",
             "LabC": "lc", "LabD": "ld"}


def den_elem(tag):
    """tag = ["u", sym] | ["c", code] | ["e", name]"""
    kind, name = tag
    if kind == "e":
        return ELEMS[name]._den()
    if kind == "c":
        return Fraction(1), {name: 1}
    if name in refdata.TEMP_UNITS:
        return Fraction(1), {name: 1}
    if name in _P_UNITS:
        return _P_UNITS[name]
    t, s = cat.ALL_UNITS[name]
    return s, {_BASE_REF[b]: e for b, e in cat.ALL_DIMS[t].items()}


def _mul(d1, d2, n=1):
    f = d1[0] * d2[0] ** n
    m = dict(d1[1])
    for k, e in d2[1].items():
        v = m.get(k, 0) + e * n
        if v:
            m[k] = v
        else:
            m.pop(k, None)
    return f, m


def den_items(items):
    """items over python objects (E, Unit, numbers)."""
    d = (Fraction(1), {})
    for el, e in items:
        if isinstance(el, E):
            d = _mul(d, el._den(), e)
        elif isinstance(el, Unit):
            sym = el.symbol
            if sym in CUR:
                d = _mul(d, (Fraction(1), {sym: 1}), e)
            else:
                d = _mul(d, den_elem(["u", sym]), e)
        else:
            d = _mul(d, (F(el), {}), e)
    return d


def obj(tag):
    kind, name = tag[0], tag[1]
    if kind == "e":
        return ELEMS[name]
    if kind == "c":
        return Money.register_currency(name)
    if kind == "u":
        return Unit(name)
    return mknum(tag)


def den_spec(items):
    d = (Fraction(1), {})
    for tag, e in items:
        if tag[0] in ("e", "c", "u"):
            d = _mul(d, den_elem(tag), e)
        else:
            d = _mul(d, (exact(tag), {}), e)
    return d


# ---------------------------------------------------------------------------
# generators

_num = gen.encode(st.one_of(st.integers(1, 12).map(Fraction), st.integers(-12, -1).map(Fraction),
                            gen.fractions(allow_zero=False)), ("int", "dec", "frac", "decp"))


# non-empty spellings of the neutral element: a derived element over its own definition (they only cancel when the
# term is normalised)
_NEUTRAL = {
    "e": [[[["e", "w"], 1], [["e", "x"], -1], [["e", "y"], 2]],
          [[["e", "v"], 1], [["e", "w"], -1], [["e", "10x"], -1]]],
    "u": [[[["u", "N"], 1], [["u", "kg"], -1], [["u", "m"], -1], [["u", "s"], 2]],
          [[["u", "J"], 1], [["u", "N"], -1], [["u", "m"], -1]],
          [[["u", "W"], 1], [["u", "s"], 1], [["u", "J"], -1]],
          [[["u", "Ws"], -1], [["u", "J"], 1]]],
}
_NEUTRAL["uc"] = _NEUTRAL["u"]


@st.composite
def gen_items(draw, family=None, max_len=8):
    if family is None:
        family = draw(st.sampled_from(["e", "u", "u", "uc"]))
    if max_len == 8 and draw(st.integers(0, 24)) == 0:
        return list(draw(st.permutations(draw(st.sampled_from(_NEUTRAL[family]))))), family
    n = gen.pick(draw, (2, st.integers(0, 1)), (5, st.integers(2, 4)), (3, st.integers(min(5, max_len), max_len)))
    items = []
    for _ in range(n):
        sel = draw(st.integers(0, 9))
        exp = draw(st.sampled_from([1, 1, 1, -1, -1, 2, -2, 3, -3, 4, -4, 0]))
        if sel <= 2:
            items.append([draw(_num), exp])
        elif family == "e":
            items.append([["e", draw(st.sampled_from(list(ELEMS)))], exp])
        elif family == "uc" and sel <= 5:
            items.append([["c", draw(st.sampled_from(CUR))], exp])
        else:
            items.append([["u", draw(st.sampled_from(UNIT_SYMS))], exp])
    return items, family


@st.composite
def gen_case(draw):
    items, fam = draw(gen_items())
    items2, _ = draw(gen_items(family=fam, max_len=5))
    items3, _ = draw(gen_items(family=fam, max_len=3))
    perm = list(draw(st.permutations(items)))
    # regroup: split exponents, inject cancelling pairs
    regroup = []
    for tag, e in items:
        if abs(e) >= 2 and draw(st.booleans()):
            s = 1 if e > 0 else -1
            regroup += [[tag, s], [tag, e - s]]
        else:
            regroup.append([tag, e])
    if draw(st.booleans()) and items:
        tag = draw(st.sampled_from(items))[0]
        regroup += [[tag, 2], [tag, -2]]
    regroup = list(draw(st.permutations(regroup)))
    return {"k": "term", "items": items, "items2": items2, "items3": items3, "perm": perm, "regroup": regroup,
            "n": draw(st.integers(-3, 3)), "kk": draw(_num)}


def parts(tier):
    big = tier == "thorough"
    return [Part("terms", "hyp", strategy=gen_case(), n=500000 if big else 40000)]


# ---------------------------------------------------------------------------

def _mk(items):
    return Term([(obj(tag), e) for tag, e in items])


def _scan_numbers(ctx, what, t):
    """No float (or other inexact number) anywhere in the items."""
    for el, e in t.items:
        if isinstance(el, (E, Unit)):
            continue
        if isinstance(el, float) or not isinstance(el, (int, Decimal, Fraction)):
            ctx.viol("float", f"{what}: numeric element {el!r} of type {type(el).__name__} in {t!r}")
            return False
    ne = t.num_elem
    if ne is not None and (isinstance(ne, float) or not isinstance(ne, (int, Decimal, Fraction))):
        ctx.viol("float", f"{what}: num_elem {ne!r} of type {type(ne).__name__} in {t!r}")
        return False
    return True


def _den_term(t):
    return den_items(t.items)


def _is_base(el):
    if isinstance(el, E):
        return el.defn is None
    if isinstance(el, Unit):
        return el.is_base_unit()
    return False


def _check_term(ctx, what, t, want):
    """t must denote `want`; its normal form must be canonical."""
    if not _scan_numbers(ctx, what, t):
        return None
    got = _den_term(t)
    if got != want:
        ctx.viol(f"denotation/{what.split(':')[0]}", f"{what}: {t!r} denotes {fs(got[0])} {got[1]}, expected "
                 f"{fs(want[0])} {want[1]}")
        return None
    n = t.normalized()
    if not _scan_numbers(ctx, what + " normalized", n):
        return None
    if _den_term(n) != want:
        ctx.viol("normalized/denotation", f"{what}: normalized {n!r} denotes {_den_term(n)}, expected {want}")
        return None
    nn = n.normalized()
    if _norm_sig(nn) != _norm_sig(n) or not (nn == n) or not n.is_normalized:
        ctx.viol("normalized/idempotent", f"{what}: normalized form {n!r} is not its own normal form ({nn!r})")
    seen = set()
    for i, (el, e) in enumerate(n.items):
        if isinstance(el, Rational):
            if i != 0:
                ctx.viol("normalized/shape/num_position", f"{what}: numeric item not in front: {n!r}")
            if e == 0 or F(el) == 1:
                ctx.viol("normalized/shape/trivial_num", f"{what}: trivial numeric item in {n!r}")
            continue
        if not _is_base(el):
            ctx.viol("normalized/shape/nonbase", f"{what}: derived element {el!r} in normal form {n!r}")
        if e == 0:
            ctx.viol("normalized/shape/zero_exp", f"{what}: zero exponent in {n!r}")
        if id(el) in seen:
            ctx.viol("normalized/shape/repeated", f"{what}: element {el!r} repeated in {n!r}")
        seen.add(id(el))
    if sum(1 for el, _ in n.items if isinstance(el, Rational)) > 1:
        ctx.viol("normalized/shape/two_nums", f"{what}: more than one numeric item in {n!r}")
    # equality with an independently built canonical spelling of the same denotation
    canon = _canonical_term(want)
    if canon is not None:
        if not (t == canon) or (t != canon) or not (canon == t):
            ctx.viol(f"canonical_equal/{what.split(':')[0]}", f"{what}: {t!r} denotes the same value as {canon!r} but "
                     "they compare unequal")
        elif hash(t) != hash(canon):
            ctx.viol(f"canonical_hash/{what.split(':')[0]}", f"{what}: {t!r} == {canon!r} but hashes differ")
    # split / num_elem
    num, rest = t.split()
    d = _mul((F(num), {}), _den_term(rest))
    if d != want:
        ctx.viol("split", f"{what}: split() of {t!r} = ({num!r}, {rest!r}) does not recompose")
    if t.num_elem is None and len(t) and isinstance(t[0][0], Rational):
        ctx.viol("num_elem", f"{what}: num_elem is None but first item of {t!r} is numeric")
    return n


_BASE_OBJ = {}


def _base_obj(name):
    if name not in _BASE_OBJ:
        if name in ELEMS:
            _BASE_OBJ[name] = ELEMS[name]
        elif name in CUR:
            _BASE_OBJ[name] = Money.register_currency(name)
        else:
            _BASE_OBJ[name] = Unit(name)
    return _BASE_OBJ[name]


def _canonical_term(den):
    f, m = den
    items = [(_base_obj(k), e) for k, e in sorted(m.items())]
    if f != 1:
        items.insert(0, (f, 1))
    return Term(items)


def _norm_sig(n):
    return tuple((("num", F(el)) if isinstance(el, Rational) else ("el", id(el)), e) for el, e in n.items)


def run_case(case, ctx):
    items = case["items"]
    ctx.label("cases")
    nonnum = [tag for tag, e in items if tag[0] in ("e", "u", "c")]
    derived = any(not _is_base(obj(tag)) for tag in nonnum)
    numexp = any(tag[0] not in ("e", "u", "c") and e != 1 for tag, e in items)
    if (len(items) >= 2 and derived) or numexp:
        ctx.nontrivial()
    if numexp:
        ctx.label("num_with_exp")
    if any(tag[0] == "int" and e < 0 for tag, e in items):
        ctx.label("int_negative_exp")
    want = den_spec(items)
    try:
        t = _mk(items)
    except Exception as exc:  # noqa: BLE001
        ctx.viol(f"construct/{type(exc).__name__}", f"Term({items}) raised {type(exc).__name__}: {exc}")
        return
    n = _check_term(ctx, "construct", t, want)
    if n is None:
        return
    # metamorphic: permutation and regrouping
    for name in ("perm", "regroup"):
        try:
            t2 = _mk(case[name])
        except Exception as exc:  # noqa: BLE001
            ctx.viol(f"{name}/construct/{type(exc).__name__}", f"Term({case[name]}) raised {type(exc).__name__}: {exc}")
            continue
        ctx.tick()
        n2 = _check_term(ctx, name, t2, want)
        if n2 is None:
            continue
        if not (t == t2) or (t != t2):
            ctx.viol(f"{name}/equal", f"{t!r} and its {name} {t2!r} denote the same value but compare unequal "
                     f"(normal forms {n!r} / {n2!r})")
        elif hash(t) != hash(t2):
            ctx.viol(f"{name}/hash", f"{t!r} == {t2!r} but hashes differ")
        if _norm_sig(n) != _norm_sig(n2):
            ctx.viol(f"{name}/normal_form_order", f"normal forms of equal terms differ: {n!r} vs {n2!r}")
    # second and third term: equality <=> denotation, group operations
    try:
        t2, t3 = _mk(case["items2"]), _mk(case["items3"])
    except Exception as exc:  # noqa: BLE001
        ctx.viol(f"construct/{type(exc).__name__}", f"Term(...) raised {type(exc).__name__}: {exc}")
        return
    d1, d2, d3 = want, den_spec(case["items2"]), den_spec(case["items3"])
    for a, b, da, db in ((t, t2, d1, d2), (t2, t3, d2, d3), (t, t, d1, d1)):
        ctx.tick()
        eq = (a == b)
        if eq is not (da == db):
            ctx.viol("equality/" + ("unequal_same_den" if da == db else "equal_diff_den"),
                     f"{a!r} == {b!r} is {eq}; denotations {da} / {db}")
        elif eq and hash(a) != hash(b):
            ctx.viol("equality/hash", f"{a!r} == {b!r} but hashes differ")
        if (a != b) is eq:
            ctx.viol("equality/ne", f"!= inconsistent with == for {a!r}, {b!r}")
    kobj, kv = mknum(case["kk"]), exact(case["kk"])
    nexp = case["n"]
    ops = [("mul", lambda: t * t2, _mul(d1, d2)), ("div", lambda: t / t2, _mul(d1, d2, -1)),
           ("mul3", lambda: (t * t2) * t3, _mul(_mul(d1, d2), d3)),
           ("mul3r", lambda: t * (t2 * t3), _mul(_mul(d1, d2), d3)),
           ("recip", lambda: t.reciprocal(), _mul((Fraction(1), {}), d1, -1)),
           ("recip2", lambda: t.reciprocal().reciprocal(), d1),
           ("t*k", lambda: t * kobj, _mul(d1, (kv, {}))), ("k*t", lambda: kobj * t, _mul(d1, (kv, {}))),
           ("t/k", lambda: t / kobj, _mul(d1, (kv, {}), -1)), ("k/t", lambda: kobj / t, _mul((kv, {}), d1, -1)),
           ("pow", lambda: t ** nexp, _mul((Fraction(1), {}), d1, nexp)),
           ("divself", lambda: t / t, (Fraction(1), {}))]
    results = {}
    for name, fn, dw in ops:
        ctx.tick()
        try:
            r = fn()
        except Exception as exc:  # noqa: BLE001
            ctx.viol(f"{name}/raises/{type(exc).__name__}", f"{name} on {t!r}, {t2!r}, k={kobj!r}, n={nexp} raised "
                     f"{type(exc).__name__}: {exc}")
            continue
        if not isinstance(r, Term):
            ctx.viol(f"{name}/type", f"{name} returned {r!r}")
            continue
        if _check_term(ctx, name, r, dw) is not None:
            results[name] = r
    if "mul3" in results and "mul3r" in results:
        a, b = results["mul3"], results["mul3r"]
        if not (a == b) or hash(a) != hash(b):
            ctx.viol("associative", f"({t!r} * {t2!r}) * {t3!r} != {t!r} * ({t2!r} * {t3!r})")
    if "mul" in results:
        try:
            c = t2 * t
            if not (results["mul"] == c) or hash(results["mul"]) != hash(c):
                ctx.viol("commutative", f"{t!r} * {t2!r} = {results['mul']!r} but reversed = {c!r}")
        except Exception as exc:  # noqa: BLE001
            ctx.viol(f"mul/raises/{type(exc).__name__}", f"{t2!r} * {t!r} raised {type(exc).__name__}")
    if "recip2" in results and (not (results["recip2"] == t) or hash(results["recip2"]) != hash(t)):
        ctx.viol("recip2/equal", f"{t!r}.reciprocal().reciprocal() = {results['recip2']!r} != original")
    if "divself" in results and (not (results["divself"] == Term()) or len(results["divself"].normalized()) != 0):
        ctx.viol("divself", f"{t!r} / itself = {results['divself']!r}")

"""C17 — results do not depend on evaluation history."""
import json
import os
import subprocess
import sys
from fractions import Fraction

from .. import env
from hypothesis import strategies as st

# NB: this module (and everything it imports) must not evaluate any operation and
# must not declare anything: the check process is the zygote from which one child
# per schedule is forked, and a child must look like a new interpreter that has
# just imported the library.
from .. import universe, worker
from ..model import fs, round_to
from ..runner import Part
from ..universe import UModel, bm_mul, bm_pow, catalogue_model, expectation
from .. import refdata

PID = "C17"
TECHNIQUE = ("differential testing of generated interleavings of declarations and operations, each schedule executed "
             "in its own fresh process (forked from an import-only zygote, cross-checked against real new "
             "interpreters), compared pairwise and against the dimension/scale model at every evaluation")
LEVEL_TEXT = ("Generated programs, two schedules each, every schedule in a fresh process (forked from an import-only process; 1 in 25 also in a real new interpreter, outputs must be identical); every evaluation is compared with the model's answer for the declarations made so far and final results pairwise. Exploration over histories.")
RULE = ("program = declarations (a generated universe, or new base/derived types and units on top of the predefined "
        "catalogue, e.g. Jerk = Acceleration/Duration) + 2-6 operations (u*v, u/v, u**n on units or quantities, both "
        "orders); two schedules per program: random dependency-respecting orders of the declarations with the "
        "operations inserted at random positions after their operands exist (possibly before their result type "
        "exists), repeated, and all evaluated once more at the end; each schedule runs in a fresh process. Oracle: "
        "(i) every evaluation equals the model's answer for the declarations made so far (undefined before the result "
        "type exists, the exact value afterwards), (ii) final results agree between the schedules. Non-trivial = the "
        "two schedules order an operation and a declaration it depends on, or two declarations, differently; distinct "
        "by digest")
FLOORS = {"prog/early_undefined": (0.10, "prog/programs")}
ASSUMPTIONS = ["a process forked from the import-only check process is equivalent to a new interpreter after the same "
               "imports; verified on a sample of schedules per run by executing them in real new interpreters too"]


def parts(tier):
    big = tier == "thorough"
    return [Part("prog", "hyp", strategy=universe.gen_program(max_steps=18 if big else 10), n=200000 if big else 5000, chunk=800)]


def run_forked(program, schedule):
    r, w = os.pipe()
    pid = os.fork()
    if pid == 0:
        try:
            os.close(r)
            try:
                data = json.dumps(worker.execute(program, schedule), ensure_ascii=False).encode("utf-8")
            except BaseException as exc:  # noqa: BLE001
                data = json.dumps({"error": f"{type(exc).__name__}: {exc}"}).encode("utf-8")
            off = 0
            while off < len(data):
                off += os.write(w, data[off:off + 65536])
        finally:
            os._exit(0)
    os.close(w)
    chunks = []
    import select
    import signal
    import time as _time
    deadline = _time.time() + float(os.environ.get("VERIF_SCHEDULE_TIMEOUT", "120"))
    while True:
        ready, _, _ = select.select([r], [], [], max(0.0, deadline - _time.time()))
        if not ready:
            os.kill(pid, signal.SIGKILL)
            os.waitpid(pid, 0)
            os.close(r)
            return {"timeout": True}
        c = os.read(r, 65536)
        if not c:
            break
        chunks.append(c)
    os.close(r)
    os.waitpid(pid, 0)
    return json.loads(b"".join(chunks).decode("utf-8"))


def run_interpreter(program, schedule):
    e = dict(os.environ)
    e["PYTHONPATH"] = env.VERIF_DIR
    e["VERIF_REPO"] = env.REPO
    p = subprocess.run([sys.executable, "-m", "vq.worker"], input=json.dumps({"program": program, "schedule": schedule}),
                       capture_output=True, text=True, env=e, cwd=env.VERIF_DIR, timeout=120)
    if p.returncode != 0:
        return {"error": p.stderr[-400:]}
    return json.loads(p.stdout)


_n = 0


def run_case(case, ctx):
    global _n
    _n += 1
    program = case["program"]
    cat = program["catalogue"]
    ctx.label("programs")
    ctx.label("on_catalogue" if cat else "own_universe")
    m = catalogue_model() if cat else UModel()
    nt0, nu0 = len(m.types), len(m.units)
    # original numbering
    dtype, dunits = {}, {}
    for k, d in enumerate(program["decls"]):
        if d["d"] == "type":
            mt = m.add_type(d)
            dtype[k] = mt.idx
            dunits[k] = [mt.ref_uid] if mt.has_ref else []
        else:
            dunits[k] = [m.add_unit(d).uid]
    cat_units = refdata.catalogue_units() if cat else []

    cat_sym2uid = {s: i for i, (s, _) in enumerate(cat_units)}
    created = {}

    def uid_of_symbol(sym):
        if sym in cat_sym2uid:
            return cat_sym2uid[sym]
        return created.get(sym)

    def type_name(ti):
        return refdata.CAT_TYPES[ti] if cat and ti < nt0 else f"PT{ti}"

    finals = []
    early_undefined = False
    order_differs = case["schedules"][0] != case["schedules"][1]
    for si, sched in enumerate(case["schedules"]):
        res = run_forked(program, sched)
        if "timeout" in res:
            dump = os.environ.get("VERIF_HANG_DUMP")
            if dump:
                with open(dump, "a", encoding="utf-8") as fh:
                    fh.write(json.dumps({"program": program, "schedule": sched}) + "\n")
            ctx.viol("schedule/hang", f"schedule {si} did not finish within the time limit in its fresh process")
            return
        if "error" in res:
            ctx.viol("schedule/declaration_failed", f"schedule {si}: a valid declaration failed in the fresh process: "
                     f"{res['error']}")
            return
        created.clear()
        created.update({s: int(i) for i, s in res["syms"].items()})
        if len(created) != len(res["syms"]):
            ctx.viol("schedule/duplicate_symbol", f"schedule {si}: two units share a symbol: {res['syms']}")
            return
        if _n % 25 == 1:
            res2 = run_interpreter(program, sched)
            ctx.label("interpreter_crosscheck")
            if res2 != res:
                raise RuntimeError(f"forked process and real interpreter disagree: {res} vs {res2}")
        declared_t = set(range(nt0))
        declared_u = set(range(nu0))
        it = iter(res["ops"])
        final = {}
        for pos, ev in enumerate(sched):
            if ev["e"] == "decl":
                k = ev["i"]
                if k in dtype:
                    declared_t.add(dtype[k])
                declared_u.update(dunits[k])
                continue
            rec = next(it)
            o = program["ops"][ev["i"]]
            ctx.tick()
            exp = _expect(m, o, declared_t, declared_u)
            if exp is None:
                ctx.label("ambiguous")
                continue
            full = _expect(m, o, None, None)
            if exp["kind"] == "undefined" and full is not None and full["kind"] != "undefined":
                early_undefined = True
            val = _compare(ctx, m, o, rec, exp, uid_of_symbol, type_name, f"schedule {si} position {pos}")
            final[ev["i"]] = (rec["r"][0], val)
        finals.append(final)
    if len(finals) == 2:
        for j in finals[0]:
            if j in finals[1] and finals[0][j] != finals[1][j]:
                ctx.viol("schedules_disagree", f"operation {program['ops'][j]} ends as {finals[0][j]} in one schedule and "
                         f"{finals[1][j]} in the other")
    if early_undefined:
        ctx.label("early_undefined")
    if order_differs:
        ctx.nontrivial()


def _expect(m, o, dt, du):
    mu = m.units[o["u"]]
    fa = mu.factor * (Fraction(o["a"][1]) if o["shape"][0] == "q" else 1)
    qa = m.unit_quantum(o["u"])
    if o["shape"][0] == "q" and qa is not None:
        fa = mu.factor * round_to(Fraction(o["a"][1]), qa, "ROUND_HALF_EVEN")
    if o["op"] == "k/":
        if fa == 0:
            return None
        return _exp(m, Fraction(o["kk"][1]) / fa, bm_pow(mu.bmap, -1), dt, du, 1 / mu.factor)
    if o["op"] == "**":
        n = o["n"]
        if fa == 0 and n < 0:
            return None
        return _exp(m, fa ** n, bm_pow(mu.bmap, n), dt, du, mu.factor ** n)
    mv = m.units[o["v"]]
    fb = mv.factor * (Fraction(o["b"][1]) if o["shape"][1] == "q" else 1)
    qb = m.unit_quantum(o["v"])
    if o["shape"][1] == "q" and qb is not None:
        fb = mv.factor * round_to(Fraction(o["b"][1]), qb, "ROUND_HALF_EVEN")
    if o["op"] == "/":
        if fb == 0:
            return None
        if mu.t == mv.t and not m.types[mu.t].has_ref and o["u"] != o["v"]:
            return None
        return _exp(m, fa / fb, bm_mul(mu.bmap, mv.bmap, -1), dt, du, mu.factor / mv.factor)
    return _exp(m, fa * fb, bm_mul(mu.bmap, mv.bmap, 1), dt, du, mu.factor * mv.factor)


def _exp(m, factor, bmap, dt, du, unit_factor):
    # the result unit is resolved from the operand units only (amounts play no part)
    r = m.result(unit_factor, bmap, dt, du)
    if r[0] == "number":
        return {"kind": "number", "value": factor}
    if r[0] == "type":
        return {"kind": "typed", "t": r[1], "ref": factor}
    if r[0] == "units":
        return {"kind": "typed", "t": m.units[r[1][0]].t, "ref": factor, "cands": r[1]}
    if r[0] == "undefined":
        return {"kind": "undefined"}
    return None


def _compare(ctx, m, o, rec, exp, uid_of_symbol, type_name, where):
    r = rec["r"]
    what = f"{where}: op {o}"
    if r[0] == "exc":
        if r[1] == "ZeroDivisionError":
            return None
        ctx.viol(f"op/raises/{r[1]}", f"{what} raised {r[1]}: {r[2]}; expected {exp['kind']}")
        return None
    if exp["kind"] == "undefined":
        if r[0] != "undefined":
            ctx.viol("op/defined_but_undefined", f"{what} returned {r} although no declared type has that dimension yet")
        return None
    if r[0] == "undefined":
        ctx.viol(f"op/undefined_but_{exp['kind']}", f"{what} raised UndefinedResultError although the result "
                 f"{'type #' + str(exp['t']) if exp['kind'] == 'typed' else 'is a number'} is declared")
        return None
    if exp["kind"] == "number":
        if r[0] == "uu":
            ok = r[2] is None and Fraction(r[1]) == exp["value"]
        else:
            ok = r[0] == "number" and Fraction(r[1]) == exp["value"] and r[2] != "float"
        if not ok:
            ctx.viol("op/number", f"{what} = {r}; expected the number {fs(exp['value'])}")
        return fs(exp["value"]) if ok else None
    # typed
    if r[0] == "number" or (r[0] == "uu" and r[2] is None):
        ctx.viol("op/typed_shape", f"{what} = {r}; expected a quantity of type #{exp['t']}")
        return None
    if r[0] == "uu":
        amount, sym, tn = Fraction(r[1]), r[2], r[3]
    else:
        amount, sym, tn = Fraction(r[3]), r[2], r[1]
        if r[4] == "float":
            ctx.viol("op/float", f"{what} holds a float")
            return None
    uid = uid_of_symbol(sym)
    if uid is None:
        ctx.viol("op/unknown_unit", f"{what} = {r}: unit {sym!r} is not one of the declared units")
        return None
    mu = m.units[uid]
    if mu.t != exp["t"] or tn != type_name(exp["t"]):
        ctx.viol("op/wrong_type", f"{what} = {r}; expected type {type_name(exp['t'])}")
        return None
    if "cands" in exp and uid not in exp["cands"]:
        ctx.viol("op/wrong_unit", f"{what} = {r}; expected a unit among {exp['cands']}")
        return None
    want = exp["ref"] / mu.factor
    q = m.unit_quantum(uid)
    if q is not None and r[0] == "typed":
        want = round_to(want, q, "ROUND_HALF_EVEN")
    if amount != want:
        ctx.viol("op/value", f"{what} = {fs(amount)} {sym}; exact value {fs(want)}")
        return None
    return fs(amount * mu.factor)

"""C10 — applying an exchange rate converts money and prices correctly."""
import itertools
from fractions import Fraction

from .. import env  # noqa: F401
from hypothesis import strategies as st

import decimalfp
from decimalfp import ROUNDING

from quantity import Quantity, QuantityError, QuantityMeta
import quantity.predefined as pre
from quantity.money import ExchangeRate, Money

from .. import gen, iso
from ..model import F, exact, fs, mknum, round_to, selftest_rounding
from ..runner import Part
from .c09 import _multiple, _num, _term

PID = "C10"
TECHNIQUE = ("Hypothesis generated-input search: money x rate x operand order x default rounding mode, and per-case fresh "
             "compound money-per-X universes (declared or missing target units), against exact Fraction arithmetic and "
             "an independent rounding model")
RULE = ("money part: amounts in currencies of all minor-unit classes x valid rates (generator of C09) x {m*r, r*m, m/r} x "
        "matching / non-matching currency x 8 default rounding modes; compound part: per case a fresh type Money/X, "
        "Money/X^2 or Money*X/Y with several units per currency (per x, per 1000 x, per x/8), target unit declared, only "
        "the base-unit target declared, or missing; quantities without money. Oracle: stored amount x reported rate on "
        "Fractions, rounded once to the target currency's fraction (independent ISO parse); for compound units the exact "
        "product and a unit with the currency replaced; per compound case the same rate object is applied, applied in the "
        "opposite direction, applied again, and once more after a matching target unit was declared late; a quarter of "
        "the universes use unit symbols with two div-signs. Non-trivial = product off the target grid, or compound case; "
        "distinct by digest")
FLOORS = {"money/offgrid": (0.3, "money/matching")}

selftest_rounding()
CUR = ["EUR", "USD", "JPY", "TND", "CLF", "KWD", "ISK", "CHF"]
_ctr = itertools.count(1)


@st.composite
def _rate(draw, cs=None):
    if cs is None:
        cs = draw(st.permutations(CUR))[:2]
    return {"cs": list(cs), "mult": draw(_multiple()), "term": draw(_term(-4, 4))}


@st.composite
def gen_money_tie(draw):
    """amount x rate lands within 1e-7..1e-9 of a tie of the target grid (exposes intermediate rounding)."""
    c1, c2 = draw(st.permutations(CUR))[:2]
    op = draw(st.sampled_from(["m*r", "r*m", "conv"]))
    qs, qt = iso.fraction_of(c1), iso.fraction_of(c2)
    a = Fraction(10) ** draw(st.integers(0, 3))
    j = draw(st.integers(1, 10 ** 5))
    eps = Fraction(draw(st.sampled_from([-1, 1])), 10 ** draw(st.integers(7, 9)))
    p = (j + Fraction(1, 2)) * qt + eps
    r = p / a
    from ..model import dec_places
    k = max(0, dec_places(r) - 6)
    term = r * 10 ** k
    while term >= 10 ** 7 and k > 0:
        k -= 1
        term = r * 10 ** k
    return {"k": "money", "cur": c1, "amt": ["dec", fs(a)], "op": op, "dflt": draw(gen.modes),
            "rate": {"cs": [c1, c2], "mult": ["int", str(10 ** k)], "term": ["dec", fs(term)]}}


@st.composite
def gen_money(draw):
    r = draw(_rate())
    match = draw(st.integers(0, 4)) != 0
    op = draw(st.sampled_from(["m*r", "r*m", "m/r", "conv", "conv_inv"]))
    need = r["cs"][1] if op in ("m/r", "conv_inv") else r["cs"][0]
    cur = need if match else draw(st.sampled_from([c for c in CUR if c != need]))
    q = iso.fraction_of(cur)
    amt = gen.pick(draw, (5, st.integers(-10 ** 7, 10 ** 7).map(lambda n: n * q)), (2, gen.fractions()))
    return {"k": "money", "cur": cur, "amt": draw(gen.encode(st.just(amt), ("int", "dec", "frac"))), "rate": r,
            "op": op, "dflt": draw(gen.modes)}


_XF = [Fraction(1), Fraction(1000), Fraction(1, 8)]
_SHAPES = {"M/X": 1, "M/X2": 1, "MX/Y": 2}


@st.composite
def gen_compound(draw):
    shape = draw(st.sampled_from(list(_SHAPES)))
    nx = _SHAPES[shape]
    r = draw(_rate())
    op = draw(st.sampled_from(["p*r", "r*p", "p/r"]))
    need = r["cs"][1] if op == "p/r" else r["cs"][0]
    target = r["cs"][0] if op == "p/r" else r["cs"][1]
    other = draw(st.sampled_from([c for c in CUR if c not in r["cs"]]))
    src_cur = gen.pick(draw, (6, st.just(need)), (1, st.just(other)), (1, st.just(target)))
    src = [src_cur] + [draw(st.integers(0, 2)) for _ in range(nx)]
    decl = [src]
    tsel = draw(st.sampled_from(["exact", "base", "both", "none", "other_scale"]))
    if tsel in ("exact", "both"):
        decl.append([target] + src[1:])
    if tsel in ("base", "both"):
        decl.append([target] + [0] * nx)
    if tsel == "other_scale":
        alt = [(i + 1) % 3 for i in src[1:]]
        if all(a != 0 for a in alt) or True:
            decl.append([target] + alt)
    for _ in range(draw(st.integers(0, 2))):
        decl.append([draw(st.sampled_from(CUR))] + [draw(st.integers(0, 2)) for _ in range(nx)])
    # remove duplicates, keep order; shuffle declaration order except keep presence
    seen, out = set(), []
    for d in decl:
        if tuple(d) not in seen:
            seen.add(tuple(d))
            out.append(d)
    out = list(draw(st.permutations(out)))
    # units defined on top of a declared price unit (cent per x = 0.01 EUR per x): the currency is only
    # reachable through the unit's definition chain
    aliases = []
    if draw(st.integers(0, 2)) == 0:
        for _ in range(draw(st.integers(1, 2))):
            aliases.append([draw(st.integers(0, len(out) - 1)), draw(st.sampled_from(["1/100", "100", "1/8", "12"]))])
    src_alias = draw(st.integers(0, len(aliases) - 1)) if aliases and draw(st.booleans()) else None
    if src_alias is not None and out[aliases[src_alias][0]][0] != src_cur:
        src_alias = None
    return {"k": "compound", "shape": shape, "decl": out, "src": out.index(src), "aliases": aliases,
            "src_alias": src_alias, "slashy": draw(st.sampled_from([0, 0, 0, 1, 2])),
            "amt": draw(gen.encode(gen.fractions(), ("int", "dec", "frac"))), "rate": r, "op": op}


@st.composite
def gen_nomoney(draw):
    return {"k": "nomoney", "u": draw(st.sampled_from(["m", "kg", "km/h", "kWh", "B", "°C"])),
            "amt": draw(gen.encode(gen.fractions(), ("int", "dec", "frac"))), "rate": draw(_rate()),
            "op": draw(st.sampled_from(["p*r", "r*p", "p/r"]))}


def parts(tier):
    big = tier == "thorough"
    return [Part("money", "hyp", strategy=gen_money(), n=500000 if big else 30000),
            Part("money_tie", "hyp", strategy=gen_money_tie(), n=100000 if big else 6000),
            Part("compound", "hyp", strategy=gen_compound(), n=150000 if big else 8000, chunk=2000),
            Part("nomoney", "hyp", strategy=gen_nomoney(), n=20000 if big else 1500)]


def _mkrate(d):
    c1, c2 = Money.register_currency(d["cs"][0]), Money.register_currency(d["cs"][1])
    return c1, c2, ExchangeRate(c1, _num(d["mult"]), c2, _num(d["term"]))


def _apply(op, q, r):
    if op in ("m*r", "p*r"):
        return q * r
    if op in ("r*m", "r*p"):
        return r * q
    return q / r


def _via_converter(ctx, case, m, a, cur, c1, c2, mode):
    """money.convert(currency) through a registered MoneyConverter: amount x reported rate, rounded once."""
    from quantity import UnitConversionError
    from quantity.money import MoneyConverter
    import datetime
    if list(Money.registered_converters()):
        raise AssertionError("harness: converter stack not empty")
    conv = MoneyConverter(c1, get_dflt_effective_date=lambda: datetime.date(2020, 1, 1))
    conv.update(None, [(c2, _num(case["rate"]["term"]), _num(case["rate"]["mult"]))])
    target = c2 if case["op"] == "conv" else c1
    need = c1 if case["op"] == "conv" else c2
    what = f"{m!r}.convert({target}) through a converter with {case['rate']} [{mode}]"
    try:
        with conv:
            try:
                rate = conv.get_rate(cur, target)
            except ValueError:
                # the inverse of the stored rate is below the documented 1e-6 limit (or cur is target)
                ctx.label("rate_not_representable")
                return
            try:
                res = m.convert(target)
            except UnitConversionError:
                if cur is need and rate is not None:
                    ctx.viol("money/conv/rejected", f"{what} raised UnitConversionError although the rate {rate!r} exists")
                else:
                    ctx.nontrivial()
                    ctx.label("mismatch_rejected")
                return
            except ValueError as exc:
                if cur is need:
                    ctx.viol(f"money/conv/raises/{type(exc).__name__}", f"{what} raised {type(exc).__name__}: {exc}")
                return
    finally:
        if list(Money.registered_converters()):
            raise AssertionError("harness: converter left registered")
    if rate is None:
        if cur is not target:
            ctx.viol("money/conv/phantom", f"{what} = {res!r} although no rate is available")
        return
    ctx.label("matching")
    tq = iso.fraction_of(target.symbol)
    ex = a * F(rate.rate)
    if (ex / tq).denominator != 1:
        ctx.label("offgrid")
        ctx.nontrivial()
    want = round_to(ex, tq, mode)
    if type(res) is not Money or res.unit is not target:
        ctx.viol("money/conv/type_unit", f"{what} = {res!r}")
    elif F(res.amount) != want:
        ctx.viol("money/conv/value", f"{what} = {res!r}; amount x reported rate {fs(ex)} rounded once is {fs(want)}")


def run_case(case, ctx):
    k = case["k"]
    ctx.label("cases")
    c1, c2, r = _mkrate(case["rate"])
    rv = F(r.rate)
    op = case["op"]
    if k == "money":
        mode = case["dflt"]
        cur = Money.register_currency(case["cur"])
        old = decimalfp.get_dflt_rounding_mode()
        decimalfp.set_dflt_rounding_mode(ROUNDING[mode])
        try:
            m = Money(mknum(case["amt"]), cur)
            a = F(m.amount)
            need, target, factor = (c2, c1, 1 / rv) if op == "m/r" else (c1, c2, rv)
            what = f"{op}: {m!r}, {r!r} [{mode}]"
            if op in ("conv", "conv_inv"):
                return _via_converter(ctx, case, m, a, cur, c1, c2, mode)
            try:
                res = _apply(op, m, r)
            except ValueError as exc:
                if isinstance(exc, QuantityError) or cur is need:
                    ctx.viol(f"money/{op}/raises/{type(exc).__name__}", f"{what} raised {type(exc).__name__}: {exc}")
                else:
                    ctx.nontrivial()
                    ctx.label("mismatch_rejected")
                return
            except Exception as exc:  # noqa: BLE001
                ctx.viol(f"money/{op}/raises/{type(exc).__name__}", f"{what} raised {type(exc).__name__}: {exc}")
                return
            if cur is not need:
                ctx.viol(f"money/{op}/mismatch_accepted", f"{what} returned {res!r} although the currency does not match")
                return
            ctx.label("matching")
            tq = iso.fraction_of(target.symbol)
            ex = a * factor
            if (ex / tq).denominator != 1:
                ctx.label("offgrid")
                ctx.nontrivial()
            want = round_to(ex, tq, mode)
            if type(res) is not Money or res.unit is not target:
                ctx.viol(f"money/{op}/type_unit", f"{what} = {res!r}; expected Money in {target}")
            elif F(res.amount) != want:
                ctx.viol(f"money/{op}/value", f"{what} = {res!r}; exact {fs(ex)} rounded once to {fs(tq)} is {fs(want)}")
        finally:
            decimalfp.set_dflt_rounding_mode(old)
        return
    if k == "nomoney":
        ctx.nontrivial()
        from quantity import Unit
        q = Quantity(mknum(case["amt"]), Unit(case["u"]))
        try:
            res = _apply(op, q, r)
        except QuantityError:
            return
        except Exception as exc:  # noqa: BLE001
            ctx.viol(f"nomoney/{type(exc).__name__}", f"{op} on {q!r}, {r!r} raised {type(exc).__name__}: {exc}")
            return
        ctx.viol("nomoney/returned", f"{op} on {q!r}, {r!r} returned {res!r}")
        return
    # compound
    ctx.nontrivial()
    n = next(_ctr)
    shape = case["shape"]
    X = QuantityMeta(f"C10X{n}", (Quantity,), {}, ref_unit_symbol=f"cx{n}", ref_unit_name="x")
    # unit symbols are free text: 'kWh/m²/a'-like symbols with two slashes end up inside the generated symbols
    # and messages of the compound units
    sl = "/p/q" if case.get("slashy") else ""
    if sl:
        ctx.label("compound/slashy_symbols")
    xu = [X.ref_unit, X.new_unit(f"cxk{n}{sl}", "kx", 1000 * X.ref_unit), X.new_unit(f"cxe{n}{sl}", "x/8",
                                                                                       Fraction(1, 8) * X.ref_unit)]
    if shape == "M/X":
        P = QuantityMeta(f"C10P{n}", (Quantity,), {}, define_as=Money / X)
        exps = [-1]
        yu = None
    elif shape == "M/X2":
        P = QuantityMeta(f"C10P{n}", (Quantity,), {}, define_as=Money / X ** 2)
        exps = [-2]
        yu = None
    else:
        Y = QuantityMeta(f"C10Y{n}", (Quantity,), {}, ref_unit_symbol=f"cy{n}", ref_unit_name="y")
        yu = [Y.ref_unit, Y.new_unit(f"cyk{n}", "ky", 1000 * Y.ref_unit), Y.new_unit(f"cye{n}", "y/8",
                                                                                       Fraction(1, 8) * Y.ref_unit)]
        P = QuantityMeta(f"C10P{n}", (Quantity,), {}, define_as=Money * X / Y)
        exps = [1, -1]
    units = []
    for d in case["decl"]:
        cur = Money.register_currency(d[0])
        args = [cur, xu[d[1]]] + ([yu[d[2]]] if yu else [])
        try:
            if case.get("slashy") == 1:
                u = P.derive_unit_from(*args, symbol=f"c10s{n}_{len(units)}")
            else:
                u = P.derive_unit_from(*args)
        except Exception as exc:  # noqa: BLE001
            ctx.viol(f"compound/declare/{type(exc).__name__}", f"{P.__name__}.derive_unit_from({', '.join(map(str, args))}) "
                     f"raised {type(exc).__name__}: {exc}")
            return
        f = Fraction(1)
        for idx, e in zip(d[1:], exps):
            f *= _XF[idx] ** e
        units.append((u, d[0], f))
    for bi, f in case.get("aliases", []):
        bu, bcur, bf = units[bi]
        fr = Fraction(f)
        au = P.new_unit(f"c10a{n}_{len(units)}", "alias", mknum(["frac", f]) * bu)
        units.append((au, bcur, bf * fr))
    ctx.label(f"shape/{shape}")
    if case.get("src_alias") is not None:
        ctx.label("compound/src_is_chained_unit")
        su, scur, sf = units[len(case["decl"]) + case["src_alias"]]
    else:
        su, scur, sf = units[case["src"]]
    p = P(mknum(case["amt"]), su)
    a = F(p.amount)
    def judge(op, phase):
        """One application of the rate; the expectation is computed from the units declared right now."""
        need, target, factor = (c2, c1, 1 / rv) if op == "p/r" else (c1, c2, rv)
        what = f"{op}: {p!r}, {r!r}" + (f" [{phase}]" if phase else "")
        cands = [(u, f) for u, cur, f in units if cur == target.symbol]
        exact_c = [c for c in cands if c[1] == sf]
        base_c = [c for c in cands if c[1] == 1]
        if scur != need.symbol:
            expect = None
            ctx.label("compound/currency_mismatch")
        elif exact_c:
            expect = exact_c
            ctx.label("compound/exact_unit")
        elif base_c:
            expect = base_c
            ctx.label("compound/base_unit")
        else:
            expect = None
            ctx.label("compound/missing_unit")
        ctx.tick()
        tag = f"compound/{op}" + (f"/{phase}" if phase else "")
        try:
            res = _apply(op, p, r)
        except QuantityError as exc:
            if expect is not None:
                ctx.viol(f"{tag}/rejected", f"{what} raised {type(exc).__name__}: {exc}; a target unit "
                         f"{[str(c[0]) for c in expect]} is declared")
            return expect is None
        except Exception as exc:  # noqa: BLE001
            ctx.viol(f"{tag}/raises/{type(exc).__name__}", f"{what} raised {type(exc).__name__}: {exc}")
            return False
        if expect is None:
            ctx.viol(f"{tag}/accepted", f"{what} returned {res!r}; expected QuantityError (declared units: "
                     f"{[str(u) for u, _, _ in units]})")
            return False
        if type(res) is not P:
            ctx.viol(f"{tag}/type", f"{what} = {res!r}; expected a {P.__name__}")
            return False
        match = [c for c in expect if c[0] is res.unit]
        if not match:
            ctx.viol(f"{tag}/unit", f"{what} = {res!r}; expected unit among {[str(c[0]) for c in expect]}")
            return False
        want = a * sf * factor / match[0][1]
        if isinstance(res.amount, float) or F(res.amount) != want:
            ctx.viol(f"{tag}/value", f"{what} = {res!r}; expected amount {fs(want)}")
            return False
        return True

    if not judge(op, ""):
        return
    # the same rate object in the other direction on the same price, then the first direction again: what a rate
    # resolved once for a price unit says nothing about the opposite direction
    other_op = "p/r" if op in ("p*r", "r*p") else "p*r"
    if not judge(other_op, "other_direction"):
        return
    if not judge(op, "again"):
        return
    # a target unit declared AFTER the rate has been applied: from now on it is the result unit
    need, target = (c2, c1) if op == "p/r" else (c1, c2)
    if scur == need.symbol and case.get("src_alias") is None:
        d = case["decl"][case["src"]]
        have = {(cur, f) for _, cur, f in units}
        if (target.symbol, sf) not in have:
            args = [target, xu[d[1]]] + ([yu[d[2]]] if yu else [])
            try:
                lu = P.derive_unit_from(*args, symbol=f"c10late{n}")
            except Exception as exc:  # noqa: BLE001
                ctx.viol(f"compound/declare_late/{type(exc).__name__}", f"late declaration raised {type(exc).__name__}: {exc}")
                return
            units.append((lu, target.symbol, sf))
            ctx.label("compound/late_target")
            judge(op, "late_target")

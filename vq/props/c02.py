"""C02 — products, quotients and powers respect dimensions and scales."""
from fractions import Fraction

from .. import env  # noqa: F401
from hypothesis import strategies as st

from decimalfp import Decimal

from quantity import Quantity, UndefinedResultError, Unit
import quantity.predefined as pre  # noqa: F401

from .. import cat, gen, refdata, universe
from ..model import F, exact, fs, mknum, round_to
from ..runner import Part
from ..universe import bm_mul, bm_pow

PID = "C02"
TECHNIQUE = ("exhaustive enumeration of all ordered unit pairs of the catalogue x {*,/} x operand shapes and of unit "
             "powers, + Hypothesis amounts and generated universes, against an independent dimension/scale model")
LEVEL_TEXT = ("Exhaustive over all ordered pairs of the 113 predefined + 31 lab units x {*, /} x four operand shapes (each evaluated twice, interleaved) and over unit powers -4..4; generated amounts, number operands and universes (quantized results, ref-less types, equal-scale sibling units). Oracle: independent dimension/scale model. Exploration for the unbounded part.")
RULE = ("catalogue part: all ordered pairs of the 113 predefined + lab units x {*, /} x operand shapes "
        "{unit.unit, qty.unit, unit.qty, qty.qty} enumerated with probe amounts; every unit ** n, n in -4..4; Hypothesis "
        "draws pairs/powers/number operands with amounts of every kind; universe part: generated universes (quantized "
        "result types, types without reference unit, alias and chained units) with generated operations. Oracle: "
        "dimension vectors and exact reference values from the hand-written table / universe model: cancelling => plain "
        "exact number, dimension owned by a declared type => instance of exactly that type with the exact value "
        "(rounded once if that type is quantized), otherwise UndefinedResultError; universes also hold types without "
        "reference unit with units scaled from their bare units (their quotients must be refused or, over the same bare "
        "units, exact) and an optional declaration X**-1 * X after which cancelling products must stay plain numbers. "
        "Non-trivial = operands of different "
        "units with a scale != 1, a cancelling pair or an undefined pair; distinct by (op, shape, units, exponent, amounts)")
ASSUMPTIONS = ["'/' between two different units of one type without reference unit (°C/°F, EUR/USD) is outside this "
               "property's linear oracle (covered by C14/C08)"]

SYMS = list(cat.ALL_UNITS) + refdata.TEMP_UNITS
DIMS = dict(cat.ALL_DIMS)


def tname(sym):
    return cat.tname(sym)


def dims(sym):
    return DIMS[tname(sym)]


def is_temp(sym):
    return sym in refdata.TEMP_UNITS


def type_for(d):
    for t, dv in DIMS.items():
        if dv == d:
            return t
    return None


# ---------------------------------------------------------------------------
# expectation for the catalogue

def expect_cat(op, su, sv, ra, rb, n=None):
    """ra/rb: value of the operands in reference units of their own type (for a
    temperature unit: in that unit). Returns an expectation dict."""
    if op == "**":
        d = refdata.dim_mul(dims(su), n)
        val = ra ** n
    else:
        sg = 1 if op == "*" else -1
        d = refdata.dim_add(dims(su), dims(sv), sg)
        val = ra * rb if op == "*" else ra / rb
    if not d:
        return {"kind": "number", "value": val}
    if "Temperature" in d:
        # no reference unit: only the units themselves could carry the result
        if op == "**" and n == 1:
            return {"kind": "typed", "t": "Temperature", "ref": val, "unit": su}
        return {"kind": "undefined"}
    t = type_for(d)
    if t is None:
        return {"kind": "undefined"}
    return {"kind": "typed", "t": t, "ref": val}


def judge(ctx, tag, what, fn, exp, scale_of, quantum_of, cls_of, tuple_ok=False, mode="ROUND_HALF_EVEN"):
    """Run fn() and compare with the expectation (mode: the active default rounding mode)."""
    try:
        res = fn()
    except UndefinedResultError as exc:
        if exp["kind"] != "undefined":
            ctx.viol(f"{tag}/undefined_but_{exp['kind']}",
                     f"{what} raised UndefinedResultError ({exc}); expected {describe(exp)}")
        return
    except ZeroDivisionError:
        raise
    except Exception as exc:  # noqa: BLE001
        ctx.viol(f"{tag}/raises/{type(exc).__name__}/{exp['kind']}",
                 f"{what} raised {type(exc).__name__}: {exc}; expected {describe(exp)}")
        return
    if exp["kind"] == "undefined":
        ctx.viol(f"{tag}/defined_but_undefined", f"{what} returned {res!r}; no declared type has that dimension, "
                 "UndefinedResultError expected")
        return
    if tuple_ok:
        if not (isinstance(res, tuple) and len(res) == 2):
            ctx.viol(f"{tag}/uu_shape", f"{what} returned {res!r}, expected (factor, unit)")
            return
        fac, ru = res
        if isinstance(fac, float):
            ctx.viol(f"{tag}/float", f"{what} returned a float factor {fac!r}")
            return
        if exp["kind"] == "number":
            if ru is not None or F(fac) != exp["value"]:
                ctx.viol(f"{tag}/uu_number", f"{what} = {res!r}, expected ({fs(exp['value'])}, None)")
            return
        if ru is None:
            ctx.viol(f"{tag}/uu_nounit", f"{what} = {res!r}, expected a unit of {exp['t']}")
            return
        _typed_value(ctx, tag, what, F(fac), ru, exp, scale_of, quantum_of, cls_of, rounded=False, mode=mode)
        return
    if exp["kind"] == "number":
        if isinstance(res, (Quantity, tuple)) or isinstance(res, float):
            ctx.viol(f"{tag}/number_shape", f"{what} returned {res!r}, expected the plain exact number {fs(exp['value'])}")
            return
        try:
            got = F(res)
        except (TypeError, ValueError):
            ctx.viol(f"{tag}/number_shape", f"{what} returned {res!r}, expected the plain number {fs(exp['value'])}")
            return
        if got != exp["value"]:
            ctx.viol(f"{tag}/number_value", f"{what} = {fs(got)}, expected {fs(exp['value'])}")
        return
    if not isinstance(res, Quantity):
        ctx.viol(f"{tag}/typed_shape", f"{what} returned {res!r}, expected a {exp['t']}")
        return
    if isinstance(res.amount, float):
        ctx.viol(f"{tag}/float", f"{what} holds a float amount")
        return
    _typed_value(ctx, tag, what, F(res.amount), res.unit, exp, scale_of, quantum_of, cls_of, rounded=True,
                 res=res, mode=mode)


def _typed_value(ctx, tag, what, amount, ru, exp, scale_of, quantum_of, cls_of, rounded, res=None,
                 mode="ROUND_HALF_EVEN"):
    cls = cls_of(exp["t"])
    if ru.qty_cls is not cls or (res is not None and type(res) is not cls):
        ctx.viol(f"{tag}/wrong_type", f"{what} is a {ru.qty_cls.__name__} ({res!r}), expected {cls.__name__}")
        return
    if exp.get("unit") is not None:
        if ru.symbol != exp["unit"]:
            ctx.viol(f"{tag}/wrong_unit", f"{what} has unit {ru}, expected {exp['unit']}")
            return
        s = Fraction(1)
    else:
        s = scale_of(ru)
        if s is None:
            ctx.viol(f"{tag}/unknown_unit", f"{what} has an unknown unit {ru}")
            return
    want = exp["ref"] / s
    q = quantum_of(ru)
    if q is not None and rounded:
        if (want / q).denominator != 1:
            ctx.label("quantized_result_offgrid")
        want = round_to(want, q, mode)
    if amount != want:
        ctx.viol(f"{tag}/value", f"{what} = {fs(amount)} {ru}; exact value in {ru} is {fs(want)}"
                 + (f" [{mode}]" if mode != "ROUND_HALF_EVEN" else ""))


def describe(exp):
    if exp["kind"] == "number":
        return f"the number {fs(exp['value'])}"
    if exp["kind"] == "typed":
        return f"a {exp['t']} worth {fs(exp['ref'])} reference units"
    return exp["kind"]


def _scale_of(ru):
    sym = ru.symbol
    if sym in cat.ALL_UNITS:
        return cat.scale(sym)
    return None


def _quantum_of(ru):
    sym = ru.symbol
    return cat.quantum(sym) if sym in cat.ALL_UNITS else None


# ---------------------------------------------------------------------------
# cases

def enum_pairs(shard, nshards):
    i = 0
    for u in SYMS:
        for v in SYMS:
            i += 1
            if i % nshards == shard:
                yield {"k": "pair", "u": u, "v": v, "a": ["int", "3"], "b": ["frac", "-7/2"]}


def enum_pows(shard, nshards):
    i = 0
    for u in SYMS:
        for n in range(-4, 5):
            i += 1
            if i % nshards == shard:
                yield {"k": "pow", "u": u, "n": n, "a": ["frac", "-3/2"]}


@st.composite
def gen_pair(draw):
    k = draw(st.integers(0, 9))
    kinds = ("int", "dec", "decp", "frac")
    if k <= 5:
        # bias towards pairs with a defined or cancelling result
        u = draw(st.sampled_from(SYMS))
        v = draw(st.sampled_from(SYMS))
        return {"k": "pair", "u": u, "v": v, "a": draw(gen.encode(gen.fractions(allow_zero=False), kinds)),
                "b": draw(gen.encode(gen.fractions(allow_zero=False), kinds))}
    if k <= 7:
        return {"k": "pow", "u": draw(st.sampled_from(SYMS)), "n": draw(st.integers(-4, 4)),
                "a": draw(gen.encode(gen.fractions(allow_zero=False), kinds))}
    return {"k": "num", "u": draw(st.sampled_from(SYMS)), "a": draw(gen.encode(gen.fractions(), kinds)),
            "kk": draw(st.one_of(gen.encode(gen.fractions(allow_zero=False), ("int", "dec", "frac", "float")),
                                 gen.floats_enc().filter(lambda e: float.fromhex(e[1]) != 0.0
                                                         and abs(float.fromhex(e[1])) < 1e30
                                                         and abs(float.fromhex(e[1])) > 1e-30)))}


_GOOD = None


def good_pairs():
    """Ordered pairs (u, op, v) whose result is typed or a number (for dense sampling)."""
    global _GOOD
    if _GOOD is None:
        _GOOD = []
        types = list(DIMS)
        by_t = {t: [s for s in SYMS if tname(s) == t] for t in types}
        for t1 in types:
            for t2 in types:
                for op, sg in (("*", 1), ("/", -1)):
                    d = refdata.dim_add(DIMS[t1], DIMS[t2], sg)
                    if "Temperature" in d:
                        continue
                    if not d or type_for(d):
                        _GOOD.append((t1, op, t2, by_t[t1], by_t[t2]))
    return _GOOD


@st.composite
def gen_good(draw):
    t1, op, t2, us, vs = draw(st.sampled_from(good_pairs()))
    u, v = draw(st.sampled_from(us)), draw(st.sampled_from(vs))
    if t1 == "Temperature":
        v = u
    kinds = ("int", "dec", "decp", "frac")
    return {"k": "pair", "u": u, "v": v, "ops": [op],
            "a": draw(gen.encode(gen.fractions(allow_zero=False), kinds)),
            "b": draw(gen.encode(gen.fractions(allow_zero=False), kinds))}


def parts(tier):
    big = tier == "thorough"
    return [
        Part("pairs", "enum", enum=enum_pairs, exhaustive=True, shards=32),
        Part("pows", "enum", enum=enum_pows, exhaustive=True, shards=16),
        Part("gen", "hyp", strategy=gen_pair(), n=300000 if big else 12000),
        Part("good", "hyp", strategy=gen_good(), n=300000 if big else 12000),
        Part("universe", "hyp", strategy=universe.gen_ops_case(max_base=4 if big else 3, max_steps=20 if big else 12), n=300000 if big else 6000, chunk=1500),
    ]


def _refval(sym, q):
    """value of quantity q (unit symbol sym) in reference units (temperature: in its own unit)."""
    a = F(q.amount)
    return a if is_temp(sym) else a * cat.scale(sym)


def _unit_refval(sym):
    return Fraction(1) if is_temp(sym) else cat.scale(sym)


def run_case(case, ctx):
    k = case["k"]
    if k.startswith("u_"):
        return universe.run_ops_case(case, ctx, judge)
    ctx.label(k)
    su = case["u"]
    U = cat.unit(su)
    qa = Quantity(mknum(case["a"]), U)
    ra = _refval(su, qa)
    if k == "pair":
        sv = case["v"]
        V = cat.unit(sv)
        qb = Quantity(mknum(case["b"]), V)
        rb = _refval(sv, qb)
        same_noref = is_temp(su) and is_temp(sv) and su != sv
        # every operator twice, interleaved: a result must not depend on what was evaluated before
        base_ops = case.get("ops", ["*", "/"])
        for op in base_ops + base_ops:
            if op == "/" and same_noref:
                ctx.label("excluded/noref_div")
                continue
            for shape in ("uu", "qu", "uq", "qq"):
                la = _unit_refval(su) if shape[0] == "u" else ra
                lb = _unit_refval(sv) if shape[1] == "u" else rb
                if op == "/" and lb == 0:
                    continue
                left = U if shape[0] == "u" else qa
                right = V if shape[1] == "u" else qb
                exp = expect_cat(op, su, sv, la, lb)
                if exp["kind"] == "typed" and is_temp(su) and is_temp(sv):
                    continue
                ctx.label(f"outcome/{exp['kind']}")
                ctx.tick()
                if exp["kind"] != "undefined" or su != sv:
                    if (cat.scale(su) if not is_temp(su) else 1) != 1 or \
                            (cat.scale(sv) if not is_temp(sv) else 1) != 1 or exp["kind"] != "typed":
                        ctx.nontrivial()
                what = f"{left!r} {op} {right!r}"
                fn = (lambda l=left, r=right: l * r) if op == "*" else (lambda l=left, r=right: l / r)
                judge(ctx, f"{op}/{shape}", what, fn, exp, _scale_of, _quantum_of, cat.cls_of_any,
                      tuple_ok=(shape == "uu"))
    elif k == "pow":
        n = case["n"]
        for shape in ("u", "q"):
            base = _unit_refval(su) if shape == "u" else ra
            if base == 0 and n < 0:
                continue
            left = U if shape == "u" else qa
            exp = expect_cat("**", su, None, base, None, n)
            ctx.label(f"outcome/{exp['kind']}")
            ctx.tick()
            ctx.nontrivial()
            judge(ctx, f"**/{shape}", f"{left!r} ** {n}", lambda l=left: l ** n, exp, _scale_of, _quantum_of,
                  cat.cls_of_any)
    elif k == "num":
        kobj, kv = mknum(case["kk"]), exact(case["kk"])
        ctx.nontrivial()
        ctx.label(f"numkind/{case['kk'][0]}")
        t = tname(su)
        a = F(qa.amount)
        for name, fn, val in (("q*k", lambda: qa * kobj, a * kv), ("k*q", lambda: kobj * qa, a * kv),
                              ("q/k", lambda: qa / kobj, a / kv)):
            ctx.tick()
            exp = {"kind": "typed", "t": t, "ref": val, "unit": su}
            judge(ctx, f"num/{name}", f"{name} with q={qa!r}, k={kobj!r}", fn, exp, _scale_of, _quantum_of,
                  cat.cls_of_any)
        # unit * k, k * unit, unit / k
        for name, fn, val in (("u*k", lambda: U * kobj, kv), ("k*u", lambda: kobj * U, kv),
                              ("u/k", lambda: U / kobj, 1 / kv)):
            ctx.tick()
            exp = {"kind": "typed", "t": t, "ref": val, "unit": su}
            judge(ctx, f"num/{name}", f"{name} with u={U}, k={kobj!r}", fn, exp, _scale_of, _quantum_of,
                  cat.cls_of_any)
        if a != 0:
            # k / q and k / unit: inverse dimension
            for name, fn, base in (("k/q", lambda: kobj / qa, ra), ("k/u", lambda: kobj / U, _unit_refval(su))):
                e = expect_cat("**", su, None, base, None, -1)
                if e["kind"] == "typed":
                    e = dict(e, ref=kv * e["ref"])
                elif e["kind"] == "number":
                    e = dict(e, value=kv * e["value"])
                ctx.tick()
                judge(ctx, f"num/{name}", f"{name} with q={qa!r}, k={kobj!r}", fn, e, _scale_of, _quantum_of,
                      cat.cls_of_any)

"""C19 — objects that compare equal hash equal."""
from fractions import Fraction

from .. import env  # noqa: F401
from hypothesis import strategies as st

from quantity import Quantity, Unit
from quantity.term import Term
import quantity.predefined as pre  # noqa: F401
from quantity.money import ExchangeRate, Money

from .. import cat, gen, refdata, universe
from ..model import F, dec_places, exact, fs, is_dec_repr, mknum
from ..runner import Part

PID = "C19"
TECHNIQUE = ("Hypothesis generation of pairs constructed to be equal (cross-unit quantities, decimal vs fraction amounts, "
             "term spellings, exchange-rate spellings) + exhaustive enumeration of unit pairs; oracle a == b => "
             "hash(a) == hash(b) and set/dict behaviour")
RULE = ("pairs constructed to be equal: quantities x*u and (x*S(u)/S(v))*v over all unit pairs of every linear type "
        "(enumerated) with generated amounts held as Decimal / Fraction / surplus-precision Decimal; temperature pairs "
        "related by the affine reference maps; every ordered unit pair of every type (equal iff same scale); terms in "
        "different spellings (permutations, regroupings, unit vs its definition); exchange rates given with different "
        "multiples. The pair is first confirmed equal by the library's own ==, then hash equality, len({a,b}) == 1 and "
        "dict lookup are required; a 'refless' part compares all unit pairs (and quantities in them) of types without "
        "reference unit whose units carry scales relative to different bare units. Non-trivial = a is not b and the representation (unit, numeric type, spelling) "
        "differs; distinct by digest")

LIN = cat.LINEAR_TYPES


def _enc(draw, amt, kinds=("dec", "frac", "decp")):
    if is_dec_repr(amt) and dec_places(amt) < 200:
        return gen.encode_as(amt, draw(st.sampled_from(kinds)), draw)
    return ["frac", fs(amt)]


@st.composite
def gen_qty(draw):
    t = draw(st.sampled_from(LIN))
    us = cat.units_of(t)
    u, v = draw(st.sampled_from(us)), draw(st.sampled_from(us))
    Q = cat.ALL_QUANTUM.get(t)
    ref = draw(st.integers(-10 ** 6, 10 ** 6)) * Q if Q is not None else draw(gen.fractions())
    return {"k": "qty", "a": {"u": u, "amt": _enc(draw, ref / cat.scale(u))},
            "b": {"u": v, "amt": _enc(draw, ref / cat.scale(v))}}


def enum_qty(shard, nshards):
    i = 0
    for t in LIN:
        us = cat.units_of(t)
        Q = cat.ALL_QUANTUM.get(t)
        for u in us:
            for v in us:
                i += 1
                if i % nshards != shard:
                    continue
                ref = 1000 * Q if Q is not None else Fraction(5, 2)
                yield {"k": "qty", "a": {"u": u, "amt": ["frac", fs(ref / cat.scale(u))]},
                       "b": {"u": v, "amt": ["frac", fs(ref / cat.scale(v))]}}
                yield {"k": "units", "u": u, "v": v}


@st.composite
def gen_temp(draw):
    u, v = draw(st.sampled_from(refdata.TEMP_UNITS)), draw(st.sampled_from(refdata.TEMP_UNITS))
    x = gen.pick(draw, (3, st.sampled_from([Fraction(0), Fraction(-40), Fraction(100), Fraction(27315, 100)])),
                 (3, gen.fractions()))
    y = refdata.temp_convert(x, u, v)
    return {"k": "qty", "temp": True, "a": {"u": u, "amt": _enc(draw, x)}, "b": {"u": v, "amt": _enc(draw, y)}}


@st.composite
def gen_money(draw):
    c = draw(st.sampled_from(cat.CUR_SAMPLE))
    q = cat.quantum(["cur", c])
    amt = draw(st.integers(-10 ** 9, 10 ** 9)) * q
    return {"k": "qty", "a": {"u": ["cur", c], "amt": _enc(draw, amt)}, "b": {"u": ["cur", c], "amt": _enc(draw, amt)}}


_TERM_UNITS = ["m", "km", "cm", "s", "h", "kg", "g", "N", "J", "W", "kW", "kWh", "°C", "°F", "l", "m³", "Hz", "lc", "klc"]


@st.composite
def gen_term(draw):
    n = draw(st.integers(1, 5))
    items = []
    for _ in range(n):
        if draw(st.integers(0, 3)) == 0:
            items.append([draw(gen.encode(gen.fractions(positive=True), ("int", "dec", "frac"))),
                          draw(st.sampled_from([1, -1, 2, -2]))])
        else:
            items.append([["u", draw(st.sampled_from(_TERM_UNITS))], draw(st.sampled_from([1, -1, 2, -2, 3]))])
    how = draw(st.sampled_from(["perm", "split", "expand", "same", "prefix", "random"]))
    other = list(items)
    if how == "prefix":
        # NOT constructed equal: whatever == says, equal objects must hash equal
        extra = [[["u", draw(st.sampled_from(_TERM_UNITS))], draw(st.sampled_from([1, -1, 2]))]
                 for _ in range(draw(st.integers(1, 2)))]
        other = items + extra if draw(st.booleans()) else items[:max(0, len(items) - 1)]
    elif how == "random":
        other = [[["u", draw(st.sampled_from(_TERM_UNITS))], draw(st.sampled_from([1, -1, 2, -2]))]
                 for _ in range(draw(st.integers(0, 3)))]
    if how == "perm":
        other = list(draw(st.permutations(items)))
    elif how == "split":
        out = []
        for el, e in items:
            if abs(e) >= 2 and el[0] == "u":
                s = 1 if e > 0 else -1
                out += [[el, s], [el, e - s]]
            else:
                out.append([el, e])
        other = list(draw(st.permutations(out)))
    elif how == "expand":
        # replace a derived unit by its normalised definition is done at run time
        other = ["expand", draw(st.integers(0, n - 1))]
    return {"k": "term", "items": items, "other": other, "how": how}


@st.composite
def gen_rate(draw):
    cs = draw(st.permutations(["EUR", "USD", "JPY", "TND", "CHF"]))[:2]
    k = draw(st.integers(0, 6))
    d = draw(st.integers(0, 6))
    rate = draw(st.integers(max(1, 10 ** (d - 3)), 10 ** 5)) * Fraction(1, 10 ** d)   # 1e-3 <= rate <= 1e5
    j = draw(st.integers(0, 4))
    c = {"k": "rate", "cs": cs, "m1": 10 ** k, "t1": fs(rate * 10 ** k), "m2": 10 ** j, "t2": fs(rate * 10 ** j),
         "rep": draw(st.sampled_from(["dec", "frac", "str"]))}
    if draw(st.integers(0, 3)) == 0 and k >= 1:
        # NOT constructed equal: differs in the last stored digit only (beyond the 6th digit of the rate)
        c["t2"] = fs(rate * 10 ** k + Fraction(draw(st.integers(1, 9)), 10 ** 6))
        c["m2"] = 10 ** k
        c["near"] = True
    return c


def parts(tier):
    big = tier == "thorough"
    return [
        Part("pairs", "enum", enum=enum_qty, exhaustive=True, shards=16),
        Part("qty", "hyp", strategy=gen_qty(), n=400000 if big else 20000),
        Part("temp", "hyp", strategy=gen_temp(), n=40000 if big else 3000),
        Part("money", "hyp", strategy=gen_money(), n=40000 if big else 2000),
        Part("term", "hyp", strategy=gen_term(), n=200000 if big else 10000),
        Part("rate", "hyp", strategy=gen_rate(), n=100000 if big else 5000),
        Part("universe", "hyp", strategy=universe.gen_linear_case(n_max=4, max_steps=16 if big else 9), n=200000 if big else 5000, chunk=1500),
        Part("refless", "hyp", strategy=universe.gen_refless_case(), n=60000 if big else 3000, chunk=1500),
    ]


def _check_pair(ctx, tag, a, b, different):
    try:
        eq = (a == b)
    except Exception as exc:  # noqa: BLE001
        ctx.viol(f"{tag}/eq_raises/{type(exc).__name__}", f"{a!r} == {b!r} raised {type(exc).__name__}: {exc}")
        return None
    if eq is not True:
        ctx.label(f"{tag}/not_equal")
        return False
    ctx.label(f"{tag}/equal")
    if different and a is not b:
        ctx.nontrivial()
    if hash(a) != hash(b):
        ctx.viol(f"{tag}/hash", f"{a!r} == {b!r} but hash {hash(a)} != {hash(b)}")
        return True
    if len({a, b}) != 1:
        ctx.viol(f"{tag}/set", f"{{{a!r}, {b!r}}} holds two equal keys")
    d = {a: "x"}
    if d.get(b) != "x":
        ctx.viol(f"{tag}/dict", f"dict keyed by {a!r} does not find the equal key {b!r}")
    return True


def _mkterm(items):
    out = []
    for el, e in items:
        if el[0] == "u":
            out.append((Unit(el[1]), e))
        else:
            out.append((mknum(el), e))
    return Term(out)


def run_case(case, ctx):
    k = case["k"]
    ctx.label(k)
    if k == "u_lin":
        built = universe.build_linear_case(case, ctx)
        if built is None:
            return
        qs, refs, mus, _ = built
        for i in range(len(qs)):
            for j in range(i + 1, len(qs)):
                a, b = qs[i], qs[j]
                tag = "quantity/cross-unit" if a.unit is not b.unit else "quantity/same-unit"
                r = _check_pair(ctx, "u_" + tag, a, b, a.unit is not b.unit or type(a.amount) is not type(b.amount))
                if r is not None and r is not (refs[i] == refs[j]):
                    ctx.viol("u_quantity/eq_vs_value", f"{a!r} == {b!r} is {r}; reference values {fs(refs[i])}, "
                             f"{fs(refs[j])} [{mus[i].how},{mus[j].how}]")
                if a.unit is not b.unit and mus[i].factor == mus[j].factor:
                    _check_pair(ctx, "unit/same-scale", a.unit, b.unit, True)
        return
    if k == "u_refless":
        built = universe.build_refless_case(case, ctx)
        if built is None:
            return
        m, b, uids = built
        amt = mknum(case["amt"])
        for i in range(len(uids)):
            for j in range(i + 1, len(uids)):
                mu, mv = m.units[uids[i]], m.units[uids[j]]
                U, V = b.units[uids[i]], b.units[uids[j]]
                ctx.tick()
                if mu.factor == mv.factor:
                    ctx.label("refless/same_factor")
                if mu.bmap != mv.bmap:
                    ctx.label("refless/other_base")
                # whatever == answers for units / quantities that are not convertible: equal => same hash
                _check_pair(ctx, "unit/refless", U, V, True)
                _check_pair(ctx, "quantity/refless", Quantity(amt, U), Quantity(amt, V), True)
                if mu.bmap == mv.bmap and mv.factor != 0:
                    _check_pair(ctx, "quantity/refless-scaled", Quantity(amt, U),
                                Quantity(F(amt) * mu.factor / mv.factor, V), True)
        return
    if k == "qty":
        a = Quantity(mknum(case["a"]["amt"]), cat.unit(case["a"]["u"]))
        b = Quantity(mknum(case["b"]["amt"]), cat.unit(case["b"]["u"]))
        if case.get("temp"):
            tag = "quantity/converter-based" if a.unit is not b.unit else "quantity/temp-same-unit"
        elif a.unit is not b.unit:
            tag = "quantity/cross-unit"
        else:
            tag = "quantity/same-unit"
        different = a.unit is not b.unit or type(a.amount) is not type(b.amount) or \
            case["a"]["amt"][0] != case["b"]["amt"][0]
        r = _check_pair(ctx, tag, a, b, different)
        if r is False and not case.get("temp"):
            ctx.viol(f"{tag}/constructed_unequal", f"{a!r} and {b!r} denote the same value but compare unequal")
    elif k == "units":
        u, v = cat.unit(case["u"]), cat.unit(case["v"])
        same = cat.scale(case["u"]) == cat.scale(case["v"])
        r = _check_pair(ctx, "unit/same-scale" if u is not v else "unit/identical", u, v, u is not v)
        if r is not None and r is not same:
            ctx.viol("unit/eq_vs_scale", f"{u!r} == {v!r} is {r}; scales {fs(cat.scale(case['u']))}, {fs(cat.scale(case['v']))}")
    elif k == "term":
        try:
            t1 = _mkterm(case["items"])
            if case["how"] == "expand":
                idx = case["other"][1]
                el, e = case["items"][idx]
                if el[0] == "u":
                    nd = Unit(el[1]).normalized_definition ** e
                    rest = [it for i, it in enumerate(case["items"]) if i != idx]
                    t2 = _mkterm(rest) * nd if rest else nd
                else:
                    t2 = _mkterm(case["items"])
            else:
                t2 = _mkterm(case["other"])
        except Exception as exc:  # noqa: BLE001
            ctx.viol(f"term/build/{type(exc).__name__}", f"building terms from {case['items']} raised "
                     f"{type(exc).__name__}: {exc}")
            return
        r = _check_pair(ctx, f"term/{case['how']}", t1, t2, case["how"] != "same")
        if r is False and case["how"] not in ("prefix", "random"):
            ctx.label("term/unequal_spellings")
    elif k == "rate":
        c1, c2 = (Money.register_currency(c) for c in case["cs"])
        rep = case["rep"]

        def mk(t):
            fr = Fraction(t)
            if rep == "dec" and is_dec_repr(fr):
                return mknum(["dec", t])
            if rep == "str" and is_dec_repr(fr):
                return str(mknum(["dec", t]))
            return fr
        r1 = ExchangeRate(c1, case["m1"], c2, mk(case["t1"]))
        r2 = ExchangeRate(c1, case["m2"], c2, mk(case["t2"]))
        if case.get("near"):
            _check_pair(ctx, "rate/near", r1, r2, True)
            return
        _check_pair(ctx, "rate", r1, r2, case["m1"] != case["m2"])
        try:
            r3 = r1.inverted().inverted()
        except ValueError:
            ctx.label("rate/inverse_out_of_range")
            return
        _check_pair(ctx, "rate/inv-inv", r1, r3, True)

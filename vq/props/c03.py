"""C03 — addition, subtraction and comparison never mix quantity types."""
import operator
from fractions import Fraction

from .. import env  # noqa: F401
from hypothesis import strategies as st

import quantity
from quantity import IncompatibleUnitsError, Quantity
import quantity.predefined as pre  # noqa: F401
from quantity.money import Money  # noqa: F401

from .. import cat, gen, refdata, universe
from ..model import F, exact, fs, mknum
from ..runner import Part

PID = "C03"
TECHNIQUE = ("exhaustive enumeration of ordered pairs of distinct quantity types x operators x operand orders + "
             "Hypothesis units/amounts/number kinds; algebraic laws checked against exact reference values")
RULE = ("mixed part: every ordered pair of distinct types (14 predefined, Money, 8 lab types) enumerated with one unit "
        "each and drawn by Hypothesis with arbitrary units/amounts, x {+,-,<,<=,>,>=,==,!=} in both operand orders; number "
        "part: quantity x plain number of every kind (int, float, Decimal, Fraction, decimal.Decimal, bool, str) incl. "
        "reflected operators, builtin sum and quantity.sum; same-type part: triples over all unit combinations of one "
        "type, sum/difference laws against reference values from the hand-written table. Non-trivial = mixed-type pair, "
        "number operand, or same-type operands in different units; distinct by digest")

CMP = {"<": operator.lt, "<=": operator.le, ">": operator.gt, ">=": operator.ge}

TYPES = list(cat.ALL_DIMS) + ["Money"]


def _units_of(t):
    if t == "Money":
        return [["cur", c] for c in cat.CUR_SAMPLE]
    if t == "Temperature":
        return list(refdata.TEMP_UNITS)
    return cat.units_of(t)


def enum_mixed(shard, nshards):
    i = 0
    for t1 in TYPES:
        for t2 in TYPES:
            if t1 == t2:
                continue
            i += 1
            if i % nshards == shard:
                yield {"k": "mixed", "u": _units_of(t1)[0], "v": _units_of(t2)[-1], "a": ["int", "5"],
                       "b": ["dec", "5"]}


@st.composite
def gen_mixed(draw):
    t1, t2 = draw(st.permutations(TYPES))[:2]
    return {"k": "mixed", "u": draw(st.sampled_from(_units_of(t1))), "v": draw(st.sampled_from(_units_of(t2))),
            "a": draw(gen.encode(gen.fractions(), ("int", "dec", "frac"))),
            "b": draw(gen.encode(gen.fractions(), ("int", "dec", "frac")))}


@st.composite
def gen_num(draw):
    t = draw(st.sampled_from(TYPES))
    kk = gen.pick(draw, (6, gen.encode(gen.fractions(), ("int", "dec", "frac", "float", "sdec", "str"))),
                  (1, gen.floats_enc()), (1, st.sampled_from([["bool", "1"], ["bool", "0"], ["str", "abc"],
                                                               ["str", ""], ["int", "0"]])))
    return {"k": "num", "u": draw(st.sampled_from(_units_of(t))),
            "a": draw(gen.encode(gen.fractions(), ("int", "dec", "frac"))), "kk": kk}


@st.composite
def gen_same(draw):
    t = draw(st.sampled_from([x for x in TYPES]))
    us = _units_of(t)
    if t in ("Money", "Temperature"):
        u = draw(st.sampled_from(us))
        units = [u, u, u]
    else:
        units = [draw(st.sampled_from(us)) for _ in range(3)]
    amts = []
    for u in units:
        q = cat.quantum(u) if t != "Temperature" else None
        if q is not None:
            amts.append(gen.encode_as(draw(st.integers(-10 ** 6, 10 ** 6)) * q, draw(st.sampled_from(["frac", "dec"]))
                                      if True else "frac"))
        else:
            amts.append(draw(gen.encode(gen.fractions(), ("int", "dec", "decp", "frac"))))
    # fix representation validity (dec needs terminating)
    amts = [a if a[0] != "dec" or _term(a) else ["frac", a[1]] for a in amts]
    quantized = t != "Temperature" and cat.quantum(units[0]) is not None
    if quantized:
        k = ["int", str(draw(st.integers(-50, 50)))]
    else:
        k = draw(gen.encode(gen.fractions(), ("int", "dec", "frac")))
    return {"k": "same", "t": t, "units": units, "amts": amts, "kk": k}


def _term(a):
    from ..model import is_dec_repr
    return is_dec_repr(Fraction(a[1]))


def parts(tier):
    big = tier == "thorough"
    return [
        Part("mixed_enum", "enum", enum=enum_mixed, exhaustive=True, shards=16),
        Part("mixed", "hyp", strategy=gen_mixed(), n=200000 if big else 10000),
        Part("num", "hyp", strategy=gen_num(), n=200000 if big else 10000),
        Part("same", "hyp", strategy=gen_same(), n=400000 if big else 20000),
        Part("universe", "hyp", strategy=universe.gen_linear_case(n_max=3, max_steps=16 if big else 9).filter(lambda c: len(c["picks"]) == 3),
             n=100000 if big else 5000, chunk=1500),
    ]


def _expect_raises(ctx, tag, what, fn, exc_type):
    try:
        res = fn()
    except exc_type as exc:
        if exc_type is TypeError and isinstance(exc, IncompatibleUnitsError):
            ctx.viol(f"{tag}/wrong_exc", f"{what} raised IncompatibleUnitsError, expected TypeError")
        return
    except Exception as exc:  # noqa: BLE001
        ctx.viol(f"{tag}/raises/{type(exc).__name__}", f"{what} raised {type(exc).__name__}: {exc}; expected "
                 f"{exc_type.__name__}")
        return
    ctx.viol(f"{tag}/returned", f"{what} returned {res!r}; expected {exc_type.__name__}")


def run_case(case, ctx):
    k = case["k"]
    ctx.label(k)
    if k == "mixed":
        qa = Quantity(mknum(case["a"]), cat.unit(case["u"]))
        qb = Quantity(mknum(case["b"]), cat.unit(case["v"]))
        ctx.nontrivial()
        for x, y in ((qa, qb), (qb, qa)):
            for name, fn in (("+", lambda: x + y), ("-", lambda: x - y), ("<", lambda: x < y), ("<=", lambda: x <= y),
                             (">", lambda: x > y), (">=", lambda: x >= y)):
                ctx.tick()
                _expect_raises(ctx, f"mixed/{name}", f"{x!r} {name} {y!r}", fn, IncompatibleUnitsError)
            if (x == y) is not False:
                ctx.viol("mixed/eq", f"{x!r} == {y!r} is not False")
            if (x != y) is not True:
                ctx.viol("mixed/ne", f"{x!r} != {y!r} is not True")
        for name, fn in (("sum", lambda: quantity.sum([qa, qb])), ("sum3", lambda: quantity.sum([qa, qa, qb]))):
            _expect_raises(ctx, f"mixed/{name}", f"quantity.{name}([{qa!r}, {qb!r}])", fn, IncompatibleUnitsError)
    elif k == "num":
        q = Quantity(mknum(case["a"]), cat.unit(case["u"]))
        n = mknum(case["kk"])
        ctx.nontrivial()
        ctx.label(f"numkind/{case['kk'][0]}")
        for name, fn in (("q+k", lambda: q + n), ("k+q", lambda: n + q), ("q-k", lambda: q - n), ("k-q", lambda: n - q),
                         ("q<k", lambda: q < n), ("k<q", lambda: n < q), ("q<=k", lambda: q <= n),
                         ("k<=q", lambda: n <= q), ("q>k", lambda: q > n), ("k>q", lambda: n > q),
                         ("q>=k", lambda: q >= n), ("k>=q", lambda: n >= q),
                         ("sum[q,k]", lambda: quantity.sum([q, n])), ("sum[k,q]", lambda: quantity.sum([n, q])),
                         ("builtin_sum[q,q]", lambda: sum([q, q]))):
            ctx.tick()
            _expect_raises(ctx, f"num/{name}", f"{name} with q={q!r}, k={n!r}", fn, TypeError)
        if (q == n) is not False or (n == q) is not False:
            ctx.viol("num/eq", f"{q!r} == {n!r} is not False")
        if (q != n) is not True or (n != q) is not True:
            ctx.viol("num/ne", f"{q!r} != {n!r} is not True")
    elif k in ("same", "u_lin"):
        if k == "u_lin":
            built = universe.build_linear_case(case, ctx)
            if built is None:
                return
            qs, refs, mus, quantized = built
            us = [q.unit for q in qs]
            S = [mu.factor for mu in mus]
            if quantized:
                kk = exact(case["kk"])
                case = dict(case, kk=["int", str(int(kk) % 50)])
        else:
            t = case["t"]
            us = [cat.unit(u) for u in case["units"]]
            qs = [Quantity(mknum(a), u) for a, u in zip(case["amts"], us)]
            if t == "Temperature":
                S = [Fraction(1)] * 3
                quantized = False
            else:
                S = [cat.scale(u) for u in case["units"]]
                quantized = cat.quantum(case["units"][0]) is not None
            refs = [F(q.amount) * s for q, s in zip(qs, S)]
        a, b, c = qs
        if us[0] is not us[1] or us[1] is not us[2]:
            ctx.nontrivial()
            ctx.label("different_units")
        cls = type(a)

        def ref(q, s):
            return F(q.amount) * s

        for name, fn, want in (("+", lambda: a + b, refs[0] + refs[1]), ("-", lambda: a - b, refs[0] - refs[1])):
            ctx.tick()
            try:
                r = fn()
            except Exception as exc:  # noqa: BLE001
                ctx.viol(f"same/{name}/raises/{type(exc).__name__}", f"{a!r} {name} {b!r} raised {type(exc).__name__}: {exc}")
                return
            if type(r) is not cls or r.unit is not a.unit:
                ctx.viol(f"same/{name}/type_unit", f"{a!r} {name} {b!r} = {r!r}: expected a {cls.__name__} in {a.unit}")
                return
            if isinstance(r.amount, float):
                ctx.viol(f"same/{name}/float", f"{a!r} {name} {b!r} holds a float")
                return
            if ref(r, S[0]) != want:
                ctx.viol(f"same/{name}/value", f"{a!r} {name} {b!r} = {r!r}: reference value {fs(ref(r, S[0]))}, "
                         f"expected {fs(want)}")
                return
        try:
            if not (a + b == b + a):
                ctx.viol("same/commutative", f"{a!r} + {b!r} != {b!r} + {a!r}")
            if not ((a + b) + c == a + (b + c)):
                ctx.viol("same/associative", f"({a!r} + {b!r}) + {c!r} != {a!r} + ({b!r} + {c!r})")
            z = a + (-a)
            if F(z.amount) != 0 or z.unit is not a.unit or type(z) is not cls:
                ctx.viol("same/negation", f"{a!r} + (-{a!r}) = {z!r}")
            if not (a - b == a + (-b)) or F((a - b).amount) != F((a + (-b)).amount):
                ctx.viol("same/sub_is_add_neg", f"{a!r} - {b!r} != {a!r} + (-{b!r})")
            if (+a) is not a and not (+a == a):
                ctx.viol("same/pos", f"+{a!r} = {+a!r}")
            if F(abs(a).amount) != abs(F(a.amount)):
                ctx.viol("same/abs", f"abs({a!r}) = {abs(a)!r}")
            kobj, kv = mknum(case["kk"]), exact(case["kk"])
            lhs = kobj * (a + b)
            rhs = kobj * a + kobj * b
            if not (lhs == rhs) or ref(lhs, S[0]) != kv * (refs[0] + refs[1]):
                ctx.viol("same/distributive", f"{kobj!r} * ({a!r} + {b!r}) = {lhs!r} but {kobj!r}*a + {kobj!r}*b = {rhs!r}")
            s3 = quantity.sum([a, b, c])
            if ref(s3, S[0]) != sum(refs) or s3.unit is not a.unit:
                ctx.viol("same/sum", f"quantity.sum([a, b, c]) = {s3!r}, expected reference value {fs(sum(refs))}")
        except Exception as exc:  # noqa: BLE001
            ctx.viol(f"same/laws/raises/{type(exc).__name__}", f"law evaluation on {a!r}, {b!r}, {c!r} raised "
                     f"{type(exc).__name__}: {exc}")

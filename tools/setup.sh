#!/bin/sh
# Offline setup after a fresh restore: third-party test tooling only.
set -u
here="$(cd "$(dirname "$0")/.." && pwd)"
cd "$here" || exit 2
WH=/opt/veriftools/wheels
if ! /venv/bin/python -c "import hypothesis" 2>/dev/null; then
    /venv/bin/pip install --no-index --find-links "$WH" hypothesis || exit 2
fi
if ! PYTHONPATH="$here/.deps" /venv/bin/python -c "import atheris" 2>/dev/null; then
    /venv/bin/pip install --no-index --find-links "$WH" --target "$here/.deps" atheris \
        || echo "note: atheris not installable; C18 fuzz part will be skipped" >&2
fi
mkdir -p "$here/evidence" "$here/replays"
DECIMALFP_FORCE_PYTHON_IMPL=1 /venv/bin/python -c "
import sys; sys.path.insert(0, '$here')
from vq import env
print('shim:', env.SHIM_STATE)
from vq.model import selftest_rounding; selftest_rounding(); print('rounding oracle self-test ok')
" || exit 2
exit 0

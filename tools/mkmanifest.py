#!/usr/bin/env python3
"""Regenerate MANIFEST.json from the table below (keeps it schema-valid)."""
import json
import os
import subprocess

HERE = os.path.dirname(os.path.dirname(os.path.abspath(__file__)))

BASELINE_OFF = ("cd /repo && env -u MAMRHEIN_QUANTITY_VERIF /venv/bin/python -m pytest -ra -q "
                "-p no:cacheprovider --timeout=900 --continue-on-collection-errors")

NOTE = ("Trusted base: Python 3.12 int/Fraction/datetime, Hypothesis 6.168 as generator/shrinker (not as "
        "oracle), decimalfp's pure-Python implementation as the substrate of the code under test "
        "(DECIMALFP_FORCE_PYTHON_IMPL=1, DESIGN.md 2.1). Exploration: held on everything generated/enumerated; "
        "no claim of absence beyond the enumerated sub-spaces marked exhaustive in the evidence.")

# id -> (technique, level text, design_ref)   (only properties whose check exists)
CHECKS = {}


def load_checks():
    import importlib.util
    import re
    pdir = os.path.join(HERE, "vq", "props")
    for fn in sorted(os.listdir(pdir)):
        m = re.match(r"c(\d+)\.py$", fn)
        if not m:
            continue
        src = open(os.path.join(pdir, fn), encoding="utf-8").read()
        pid = "C" + m.group(1)
        tm = re.search(r'^TECHNIQUE = \(?\s*((?:"[^"]*"\s*)+)\)?', src, re.M)
        tech = "".join(re.findall(r'"([^"]*)"', tm.group(1))) if tm else \
            "Hypothesis generated-input search against an independent model"
        lm = re.search(r'^LEVEL_TEXT = \(?\s*((?:"[^"]*"\s*)+)\)?', src, re.M)
        text = "".join(re.findall(r'"([^"]*)"', lm.group(1))) if lm else None
        CHECKS[pid] = (tech, text)


def main():
    load_checks()
    props = [json.loads(line) for line in open(os.path.join(HERE, "properties.jsonl"), encoding="utf-8")]
    checks = []
    na = []
    for p in props:
        pid = p["id"]
        if pid in CHECKS:
            tech, text = CHECKS[pid]
            checks.append({
                "property_id": pid,
                "quick_cmd": f"./check {pid} --tier quick",
                "thorough_cmd": f"./check {pid} --tier thorough",
                "evidence_file": f"/verif/evidence/{pid}.json",
                "replay_cmd_template": f"./check {pid} --replay {{path}}",
                "engine": "vq",
                "level_claimed": {
                    "category": "exploration",
                    "text": text or (
                        "Generated-input search (Hypothesis, sharded over 16 processes, seeded by VERIF_SEED) plus "
                        "exhaustive enumeration of the finite sub-spaces against an oracle that does not go through "
                        "the code under test; shows the property held on every explored case and reports counts, "
                        "non-trivial share and samples. Right level because the property quantifies over unbounded "
                        "inputs/histories of a deterministic in-memory library."),
                    "design_ref": f"DESIGN.md section 4, {pid}",
                },
                "level_note": NOTE,
                "technique": tech,
            })
        else:
            na.append({"property_id": pid,
                       "reason": "check not built yet in this session (planned in DESIGN.md section 4); "
                                 "not claimed until its command exists"})
    try:
        hooks_commits = [l.split()[0] for l in subprocess.run(
            ["git", "-C", "/repo", "log", "--format=%H %s", "--grep=^hook:"],
            capture_output=True, text=True).stdout.splitlines() if l.strip()]
    except Exception:  # noqa: BLE001
        hooks_commits = []
    man = {
        "version": 1,
        "setup_cmd": "sh tools/setup.sh",
        "hooks": {
            "guard": "MAMRHEIN_QUANTITY_VERIF",
            "enable": "no instrumentation is compiled in: checks import /repo/src from the working tree; "
                      "./check exports MAMRHEIN_QUANTITY_VERIF=1 for uniformity only",
            "baseline_off_cmd": BASELINE_OFF,
            "source_commits": hooks_commits,
            "add_only": True,
        },
        "engines": [{
            "name": "vq",
            "path": "/verif/vq",
            "serves_properties": sorted(CHECKS),
            "kind_free_text": "property-based testing / fuzzing harness: Hypothesis strategies + enumerators + "
                              "atheris target, independent Fraction/dict models as oracles, collect-then-shrink, "
                              "JSON replay files",
        }],
        "checks": checks,
        "notes": "All checks: ./check <ID> --tier quick|thorough; exit 0 held / 1 VIOLATION line / 2 harness error. "
                 "known_findings.json lists open findings (printed as KNOWN-FINDING) and fixed: records.",
        "not_applicable": na,
    }
    with open(os.path.join(HERE, "MANIFEST.json"), "w", encoding="utf-8") as fh:
        json.dump(man, fh, indent=1, ensure_ascii=False)
        fh.write("\n")
    print(f"MANIFEST.json: {len(checks)} checks, {len(na)} not claimed")


if __name__ == "__main__":
    main()

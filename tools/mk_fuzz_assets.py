#!/venv/bin/python
"""Regenerate fuzz/c18.dict and fuzz/corpus_c18/ (committed outputs)."""
import os, re, sys
here = os.path.dirname(os.path.dirname(os.path.abspath(__file__)))
sys.path.insert(0, here)
from vq import env, cat, refdata
syms = list(cat.ALL_UNITS) + refdata.TEMP_UNITS + ["EUR", "USD", "µΩ", "a b", "m/s²·K", "x²", "1/z"]
def esc(s):
    return "".join(f"\\x{b:02x}" if b < 32 or b > 126 or b in (34, 92) else chr(b) for b in s.encode("utf-8"))
with open(os.path.join(here, "fuzz", "c18.dict"), "w") as fh:
    for s in syms:
        fh.write(f'"{esc(s)}"\n')
    for tok in ["1/", "/0", "e", "E", ".", "-", "+", " ", "0", "1e3", "-.5", "9/0", "inf", "nan", "_"]:
        fh.write(f'"{esc(tok)}"\n')
cdir = os.path.join(here, "fuzz", "corpus_c18")
os.makedirs(cdir, exist_ok=True)
seeds = ["17.5 km", "17 m", "1/7 kB", "3.18 USD", "19.36 m³", "1.7296 km", "10 kg", "27 °C", "-1.5e3 µm", "3/4 in²",
         "0.001 kWh", " 12  km/h ", "5 m/s²", "1e-9 Tib/s"]
# strings used in the repository's tests
for fn in os.listdir(os.path.join(env.REPO, "tests")):
    if fn.endswith(".py"):
        src = open(os.path.join(env.REPO, "tests", fn), encoding="utf-8").read()
        for m in re.finditer(r"""['"](-?[\d./]+(?:e-?\d+)? [^'"\n]{1,12})['"]""", src):
            seeds.append(m.group(1))
for i, s in enumerate(sorted(set(seeds))):
    with open(os.path.join(cdir, f"seed{i:03d}"), "w", encoding="utf-8") as fh:
        fh.write(s)
print(len(set(seeds)), "seeds;", len(syms), "symbols")

#!/bin/sh
# tools/at_rev.sh <git-rev-of-/repo> <command...>: run a command with VERIF_REPO pointing at a
# scratch worktree of /repo at that revision (removed afterwards).
rev="$1"; shift
wt="$(mktemp -d /tmp/vq-wt-XXXXXX)"
git -C /repo worktree add -q --detach "$wt" "$rev" || exit 2
VERIF_REPO="$wt" "$@"
rc=$?
git -C /repo worktree remove --force "$wt"
exit $rc

#!/bin/sh
# tools/varcheck.sh <dir with patch.diff meta.json> [CHECK-ID ...]
# A property-preserving variation must not make any check report a violation: apply it to a scratch worktree
# of /repo HEAD, run the repository's suite, then the quick tier of the named checks (default: all 20).
d="$(cd "$1" && pwd)"; shift
here="$(cd "$(dirname "$0")/.." && pwd)"
checks="${*:-C01 C02 C03 C04 C05 C06 C07 C08 C09 C10 C11 C12 C13 C14 C15 C16 C17 C18 C19 C20}"
wt="$(mktemp -d /tmp/vq-var-XXXXXX)"
git -C /repo worktree add -q --detach "$wt" HEAD || exit 2
trap 'git -C /repo worktree remove --force "$wt" >/dev/null 2>&1' EXIT
if ! git -C "$wt" apply "$d/patch.diff" 2>/dev/null && ! git -C "$wt" apply -3 "$d/patch.diff"; then echo "patch_applies no"; exit 3; fi
( cd "$wt" && PYTHONPATH="$wt/src" /venv/bin/python -m pytest -q -p no:cacheprovider -n 8 2>&1 | tail -1 | sed 's/^/repo_tests: /' )
for c in $checks; do
  out="$(cd "$here" && VERIF_REPO="$wt" VERIF_NO_SHRINK=1 VERIF_OUT_DIR="$wt/_vqout" ./check "$c" --tier quick 2>&1)"; rc=$?
  echo "check $c rc=$rc $(echo "$out" | grep -m2 -E '^violation|HARNESS' | tr '\n' ' ' | cut -c1-300)"
done

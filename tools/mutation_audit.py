#!/venv/bin/python
"""Sensitivity audit (DESIGN.md 5.4): apply each mutant of mutants/mutants.py to a scratch worktree of
/repo HEAD, keep it if the repository's own suite still passes, run the property's quick check against
it and record killed / survived.  Usage: tools/mutation_audit.py [-j N] [id-substring ...]
Writes mutants/results.json (merged with earlier results).
"""
import json
import os
import subprocess
import sys
import tempfile
import time
from concurrent.futures import ThreadPoolExecutor

HERE = os.path.dirname(os.path.dirname(os.path.abspath(__file__)))
sys.path.insert(0, os.path.join(HERE, "mutants"))
from mutants import MUTANTS  # noqa: E402


def run(cmd, **kw):
    return subprocess.run(cmd, capture_output=True, text=True, **kw)


def audit(mut):
    mid, pid, rel, old, new = mut
    wt = tempfile.mkdtemp(prefix="vq-mut-")
    os.rmdir(wt)
    res = {"id": mid, "property": pid, "file": rel}
    r = run(["git", "-C", "/repo", "worktree", "add", "-q", "--detach", wt, "HEAD"])
    if r.returncode:
        res["status"] = "worktree-error"
        return res
    try:
        path = os.path.join(wt, "src", "quantity", rel)
        src = open(path, encoding="utf-8").read()
        if src.count(old) != 1:
            res["status"] = f"not-applicable (old text occurs {src.count(old)} times)"
            return res
        open(path, "w", encoding="utf-8").write(src.replace(old, new))
        e = dict(os.environ, PYTHONPATH=os.path.join(wt, "src"))
        t = run(["/venv/bin/python", "-m", "pytest", "-q", "-p", "no:cacheprovider", "-n", "4", "-x"], cwd=wt, env=e)
        last = (t.stdout.strip().splitlines() or ["?"])[-1]
        res["repo_tests"] = last
        if t.returncode != 0:
            res["status"] = "killed-by-repo-suite"
            return res
        t0 = time.time()
        e2 = dict(os.environ, VERIF_REPO=wt, VERIF_NO_SHRINK="1", VERIF_OUT_DIR=os.path.join(wt, "_vqout"))
        c = run([os.path.join(HERE, "check"), pid, "--tier", "quick"], cwd=HERE, env=e2)
        res["check_rc"] = c.returncode
        res["check_s"] = round(time.time() - t0, 1)
        viol = [ln for ln in c.stdout.splitlines() if ln.startswith("violation ")]
        res["first_violation"] = viol[0][:260] if viol else None
        res["n_signatures"] = len(viol)
        if c.returncode == 1:
            res["status"] = "killed"
        elif c.returncode == 0:
            res["status"] = "SURVIVED"
        else:
            res["status"] = "harness-error"
            res["stderr"] = c.stderr[-600:]
        return res
    finally:
        run(["git", "-C", "/repo", "worktree", "remove", "--force", wt])


def main():
    args = sys.argv[1:]
    jobs = 2
    if args[:1] == ["-j"]:
        jobs = int(args[1])
        args = args[2:]
    muts = [m for m in MUTANTS if not args or any(a in m[0] for a in args)]
    out_path = os.path.join(HERE, "mutants", "results.json")
    results = {}
    if os.path.exists(out_path):
        results = {r["id"]: r for r in json.load(open(out_path))}
    with ThreadPoolExecutor(jobs) as ex:
        for r in ex.map(audit, muts):
            results[r["id"]] = r
            print(f"{r['id']:45s} {r['status']:28s} {r.get('check_s', '')} {(r.get('first_violation') or '')[:110]}", flush=True)
            json.dump(sorted(results.values(), key=lambda x: x["id"]), open(out_path, "w"), indent=1, ensure_ascii=False)


if __name__ == "__main__":
    main()

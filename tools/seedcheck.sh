#!/bin/sh
# tools/seedcheck.sh <dir with patch.diff demo.py meta.json> [CHECK-ID ...]
# Verifies a seeded change in a scratch worktree of /repo HEAD and runs the named checks (default: the
# property named in meta.json) against it with VERIF_REPO. Prints one summary line per step.
d="$(cd "$1" && pwd)"; shift
here="$(cd "$(dirname "$0")/.." && pwd)"
pid=$(/venv/bin/python -c "import json,sys;print(json.load(open('$d/meta.json'))['property'])")
checks="${*:-$pid}"
wt="$(mktemp -d /tmp/vq-seed-XXXXXX)"
git -C /repo worktree add -q --detach "$wt" HEAD || exit 2
trap 'git -C /repo worktree remove --force "$wt" >/dev/null 2>&1' EXIT
( cd "$wt" && PYTHONPATH="$wt/src" /venv/bin/python "$d/demo.py" >/dev/null 2>&1 ); echo "demo_without_patch rc=$?"
if ! git -C "$wt" apply "$d/patch.diff" 2>/dev/null && ! git -C "$wt" apply -3 "$d/patch.diff"; then echo "patch_applies no"; exit 3; fi
echo "patch_applies yes"
( cd "$wt" && PYTHONPATH="$wt/src" /venv/bin/python -m pytest -q -p no:cacheprovider -n 8 2>&1 | tail -1 | sed 's/^/repo_tests: /' )
( cd "$wt" && PYTHONPATH="$wt/src" /venv/bin/python "$d/demo.py" >/dev/null 2>&1 ); echo "demo_with_patch rc=$?"
( cd "$wt" && DECIMALFP_FORCE_PYTHON_IMPL=1 PYTHONPATH="$wt/src" /venv/bin/python "$d/demo.py" >/dev/null 2>&1 ); echo "demo_with_patch_pyimpl rc=$?"
for c in $checks; do
  out="$(cd "$here" && VERIF_REPO="$wt" VERIF_NO_SHRINK=1 VERIF_OUT_DIR="$wt/_vqout" ./check "$c" --tier quick 2>&1)"; rc=$?
  echo "check $c rc=$rc $(echo "$out" | grep -c '^VIOLATION') violation line(s); first: $(echo "$out" | grep -m1 '^violation' | cut -c1-220)"
done

#!/bin/sh
# tools/import_seeds.sh [-o OFFSET] C10 ... : copy /tmp/seed-<ID>/_out/{1,2} to seeded/<ID>-{1+OFFSET,2+OFFSET}
# and run seedcheck on each
here="$(cd "$(dirname "$0")/.." && pwd)"
off=0
if [ "$1" = "-o" ]; then off="$2"; shift 2; fi
for id in "$@"; do
  for k in 1 2; do
    src="/tmp/seed-$id/_out/$k"
    [ -f "$src/patch.diff" ] || { echo "$id-$k: no patch"; continue; }
    dst="$here/seeded/$id-$((k + off))"
    mkdir -p "$dst"; cp "$src/patch.diff" "$src/demo.py" "$src/meta.json" "$dst/"
    echo "== $id-$((k + off)): $(/venv/bin/python -c "import json;print(json.load(open('$dst/meta.json'))['summary'][:200])")"
    "$here/tools/seedcheck.sh" "$dst" 2>&1 | tee "$dst/seedcheck.log"
  done
done

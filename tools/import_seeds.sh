#!/bin/sh
# tools/import_seeds.sh C10 ... : copy /tmp/seed-<ID>/_out/{1,2} to seeded/<ID>-{1,2} and run seedcheck on each
here="$(cd "$(dirname "$0")/.." && pwd)"
for id in "$@"; do
  for k in 1 2; do
    src="/tmp/seed-$id/_out/$k"
    [ -f "$src/patch.diff" ] || { echo "$id-$k: no patch"; continue; }
    dst="$here/seeded/$id-$k"
    mkdir -p "$dst"; cp "$src/patch.diff" "$src/demo.py" "$src/meta.json" "$dst/"
    echo "== $id-$k: $(/venv/bin/python -c "import json;print(json.load(open('$dst/meta.json'))['summary'][:200])")"
    "$here/tools/seedcheck.sh" "$dst" 2>&1 | tee "$dst/seedcheck.log"
  done
done

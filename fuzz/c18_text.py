#!/venv/bin/python
"""atheris target for C18: arbitrary text through Quantity(text).

Oracle inside the target (vq.props.c18.check_raw_text): the text is either
parsed into a quantity that agrees with an independent reading of the text, or
rejected with QuantityError - anything else is written to $VQ_FUZZ_OUT and
replayed by the check through run_case.
"""
import json
import os
import sys

here = os.path.dirname(os.path.dirname(os.path.abspath(__file__)))
sys.path.insert(0, here)
sys.path.append(os.path.join(here, ".deps"))
from vq import env  # noqa: E402,F401  (substrate switch, repo path)

import atheris  # noqa: E402

with atheris.instrument_imports(include=["quantity"]):
    import quantity  # noqa: F401
    import quantity.predefined  # noqa: F401
    import quantity.money  # noqa: F401

from vq.props import c18  # noqa: E402

OUT = os.environ.get("VQ_FUZZ_OUT", "findings.jsonl")
STATS = {"execs": 0, "outcomes": {}, "accepted_samples": []}
_seen = set()


class MiniCtx:
    def __init__(self):
        self.v = []

    def viol(self, sig, msg, case=None):
        self.v.append((sig, msg))


def flush_stats():
    with open(OUT + ".stats", "w", encoding="utf-8") as fh:
        json.dump(STATS, fh)


def TestOneInput(data):
    s = data.decode("utf-8", errors="ignore")
    if len(s) > 200:
        return
    ctx = MiniCtx()
    r = c18.check_raw_text(ctx, s)
    STATS["execs"] += 1
    STATS["outcomes"][r] = STATS["outcomes"].get(r, 0) + 1
    if r == "accepted" and len(STATS["accepted_samples"]) < 200 and s not in _seen:
        _seen.add(s)
        STATS["accepted_samples"].append(s)
    if ctx.v:
        key = ctx.v[0][0]
        if (key, s) not in _seen and len(_seen) < 5000:
            _seen.add((key, s))
            with open(OUT, "a", encoding="utf-8") as fh:
                fh.write(json.dumps({"s": s, "sig": key, "msg": ctx.v[0][1]}, ensure_ascii=False) + "\n")
    if STATS["execs"] % 2000 == 0:
        flush_stats()


if __name__ == "__main__":
    atheris.Setup(sys.argv, TestOneInput)
    try:
        atheris.Fuzz()
    finally:
        flush_stats()
